----------------------------- MODULE DsLifeTrace -----------------------------
(***************************************************************************)
(* Validation of replays of DsLife behaviours on real Datastore objects    *)
(* (harness/drive/dslife.go).  Every trace line is one action of DsLife    *)
(* followed by the observed cache instance (by name) and device; the       *)
(* action must be enabled in the model and lead to exactly that            *)
(* observation.  open / timer are not logged: TLC infers them.             *)
(* A TimerFire whose transaction was resolved before is a step of the      *)
(* code without counterpart in the model (the goroutine finds nothing to   *)
(* do): a stuttering step here.                                            *)
(* The trace is accepted when every line was consumed; the highest line    *)
(* reached is kept in TLC register 1 (run with -workers 1).                *)
(***************************************************************************)
EXTENDS DsLife, Json, IOUtils

TraceFile == IOEnv.VERIF_TRACE
Trace == ndJsonDeserialize(TraceFile)

VARIABLE l
tvars == <<vars, l>>

Line == Trace[l]
Obs == /\ cache' = Line.cache /\ device' = Line.device
Is(a) == l <= Len(Trace) /\ Line.act = a /\ l' = l + 1

TReset == /\ Is("Reset")
          /\ live' = 0 /\ next' = 0 /\ cache' = None /\ device' = "-"
          /\ open' = [i \in Incs |-> None] /\ timer' = [i \in Incs |-> "off"] /\ ghost' = {}
          /\ refuse' = Line.refuse
          /\ Line.cache = None /\ Line.device = "-"
TCreate == Is("Create") /\ Create /\ live' = Line.i /\ Obs /\ Line.ret = "ok"
TSet == Is("Set") /\ Set(Line.v) /\ live = Line.i /\ Obs /\ Line.ret = "ok"
TConfirm == Is("Confirm") /\ Confirm /\ live = Line.i /\ Obs /\ Line.ret = "ok"
TCancel == Is("Cancel") /\ Cancel /\ live = Line.i /\ Obs /\ Line.ret = "ok"
TDelete == Is("Delete") /\ Delete /\ live = Line.i /\ Obs /\ Line.ret = "ok"
TTimer == /\ Is("TimerFire") /\ Line.ret = "ok"
          /\ \/ TimerFire(Line.i) /\ Obs
             \/ /\ (timer[Line.i] = "off" \/ open[Line.i] = None) /\ UNCHANGED vars
                /\ cache = Line.cache /\ device = Line.device

TInit == Init /\ l = 1
TNext == TReset \/ TCreate \/ TSet \/ TConfirm \/ TCancel \/ TDelete \/ TTimer
TSpec == TInit /\ [][TNext]_tvars

HighWater == TLCSet(1, IF TLCGet(1) > l THEN TLCGet(1) ELSE l)
Mark == HighWater
ASSUME TLCSet(1, 0)
Accepted == /\ PrintT(<<"HIGHWATER", TLCGet(1), Len(Trace)>>)
            /\ TLCGet(1) = Len(Trace) + 1
\* observation (not a listed property): a deleted datastore never acts again
Silent == ghost = {}
=============================================================================
