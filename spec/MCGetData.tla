----------------------------- MODULE MCGetData -----------------------------
EXTENDS GetData, Json, Randomization

CfgLeaves == {"pl.a", "pl.ab", "pl.s", "i1.name", "i1.val", "i2.name", "i2.val", "s.host", "s.hostname", "s.tags", "s.svc.id",
              "c.x", "c.z", "p1.zone", "p1.app", "p1.weight", "p2.zone", "p2.app", "p2.weight"}
KeysClosed(S) == /\ ("i1.val" \in S => "i1.name" \in S) /\ ("i2.val" \in S => "i2.name" \in S)
                 /\ (("p1.weight" \in S \/ "p1.zone" \in S \/ "p1.app" \in S) => {"p1.zone", "p1.app"} \subseteq S)
                 /\ (("p2.weight" \in S \/ "p2.zone" \in S \/ "p2.app" \in S) => {"p2.zone", "p2.app"} \subseteq S)
ValOf(l) == IF l \in UKeyLeaf THEN "key" ELSE RandomElement(UVals[l])
Close(S) == S \cup (IF "i1.val" \in S THEN {"i1.name"} ELSE {}) \cup (IF "i2.val" \in S THEN {"i2.name"} ELSE {})
              \cup (IF S \cap {"p1.weight", "p1.zone", "p1.app"} # {} THEN {"p1.zone", "p1.app"} ELSE {})
              \cup (IF S \cap {"p2.weight", "p2.zone", "p2.app"} # {} THEN {"p2.zone", "p2.app"} ELSE {})
Fun(S) == [l \in S |-> ValOf(l)]
NStates == 12
IntLeaves == {"pl.a", "pl.ab", "i1.val", "i2.val", "s.host", "s.hostname"}
Owners == {"A", "B"}
PrioOfO(o) == IF o = "A" THEN 5 ELSE 7
RandIntended == UNION {{[o |-> o, p |-> PrioOfO(o), l |-> l, v |-> RandomElement(UVals[l])] : l \in RandomElement(SUBSET IntLeaves)} : o \in Owners}
MCStates == {[config |-> Fun(Close(S)), state |-> Fun(RandomElement(SUBSET UStateLeaf)), intended |-> RandIntended] :
                 S \in RandomSetOfSubsets(NStates, 9, CfgLeaves)} \cup {[config |-> <<>>, state |-> <<>>, intended |-> {}]}
ReqNodes == AllNode
MCRequests ==
    {Req("MAIN", dt, enc, {n}, "", 0) : dt \in {"CONFIG", "ALL"}, enc \in Encodings, n \in ReqNodes}
    \cup {Req("MAIN", "STATE", enc, {n}, "", 0) : enc \in {"STRING", "JSON"}, n \in {"/", "sys", "item[k1]", "sys/uptime"}}
    \cup {Req("MAIN", "CONFIG", enc, {n, m}, "", 0) : enc \in {"STRING", "JSON_IETF"}, n \in {"plain/a", "item[k1]", "sys/host"}, m \in {"plain/sub", "item[k2]/val", "ch/alpha", "pair[z1]"}}
    \cup {Req("INTENDED", "CONFIG", enc, {n}, o, IF o = "" THEN 0 ELSE PrioOfO(o)) : enc \in {"STRING", "PROTO"}, n \in {"/", "plain", "plain/a", "item[k1]/val", "sys/host"}, o \in {"", "A", "B"}}
    \* several exact leaf paths on the intended store, among them prefix related names and keys
    \cup {Req("INTENDED", "CONFIG", enc, P, o, IF o = "" THEN 0 ELSE PrioOfO(o)) : enc \in Encodings, o \in {"", "A"},
               P \in {{"plain/a", "plain/ab"}, {"sys/host", "sys/hostname"}, {"item[k1]/val", "item[k2]/val"}, {"plain/a", "sys/host", "item[k1]/val"}}}
    \cup {Req("MAIN", "CONFIG", enc, P, "", 0) : enc \in Encodings,
               P \in {{"plain/a", "plain/ab"}, {"sys/host", "sys/hostname"}, {"item[k1]/val", "item[k2]/val"}, {"item[k1]", "item[k2]/val"}}}
    \cup {Req("MAIN", "CONFIG", "BOGUS", {"/"}, "", 0), Req("INTENDED", "STATE", "STRING", {"plain"}, "", 0)}
    \cup {Req("MAIN", "CONFIG", enc, {"plain/a", "?unknown"}, "", 0) : enc \in Encodings}

\* emit the sampled store contents with the full request list once
Emit == PrintT(<<"GETSTATES", ToJson([states |-> MCStates, reqs |-> MCRequests])>>)
ASSUME Emit
=============================================================================
