------------------------------- MODULE Paths -------------------------------
(***************************************************************************)
(* Instance paths and their representations (C11).                         *)
(*                                                                         *)
(* An instance path is a sequence of elements [name, keys]; keys maps the  *)
(* key names of a list to values.  The code moves between                  *)
(*   P  the request path            (sdcpb.Path, keys as a map)            *)
(*   S  the element sequence        (utils.ToStrings: names and key values *)
(*                                   in the order of the SORTED key names; *)
(*                                   this is also the position in the      *)
(*                                   merge tree and the cache key)         *)
(*   X  the string form             (utils.ToXPath / utils.ParsePath)      *)
(*   J  the joined index key        (strings.Join(S, "_"): tree.PathSet,   *)
(*                                   TreeCacheClient store indexes)        *)
(* This module fixes the conventions (ToStrings, ToPath) and states the    *)
(* laws C11 demands of every representation: round trips are the identity, *)
(* distinct paths have distinct images, and "image of q is a prefix of the *)
(* image of p" holds only when q is an ancestor of p.  TLC checks the laws *)
(* on the conventions for every path of the bounded universe; J is known   *)
(* NOT to satisfy them (TLC computes the colliding pairs), which is why    *)
(* every use of J in the code is checked against the law on the real code. *)
(***************************************************************************)
EXTENDS Naturals, Sequences, FiniteSets, SequencesExt, TLC

CONSTANTS KeyVals,     \* key values (adversarial: separators, brackets, spaces)
          KeyVals3     \* the smaller set used for the three-key list

\* the lists of the verification schema: key names in the order of the key statement, and sorted
DeclKeys   == [item |-> <<"name">>, pair |-> <<"zone", "app">>, triple |-> <<"k3", "k1", "k2">>]
SortedKeys == [item |-> <<"name">>, pair |-> <<"app", "zone">>, triple |-> <<"k1", "k2", "k3">>]
ListLeaves == [item |-> {"name", "val", "y_val"}, pair |-> {"zone", "app", "weight"}, triple |-> {"k1", "k2", "k3", "v"}]
ListNames  == DOMAIN DeclKeys
NoKeys == <<>>

Elem(n, k) == [name |-> n, keys |-> k]
KeyFun(l, vals) == [kn \in {DeclKeys[l][i] : i \in 1..Len(DeclKeys[l])} |->
                       vals[CHOOSE j \in 1..Len(DeclKeys[l]) : DeclKeys[l][j] = kn]]
ValsOf(l) == IF l = "triple" THEN KeyVals3 ELSE KeyVals
Tuples(S, n) == [1..n -> S]
\* list entries and the leaves below them
EntryPaths == UNION {{<<Elem(l, KeyFun(l, t))>> : t \in Tuples(ValsOf(l), Len(DeclKeys[l]))} : l \in ListNames}
EntryLeafPaths == UNION {{e \o <<Elem(lf, NoKeys)>> : lf \in ListLeaves[e[1].name]} : e \in EntryPaths}
PlainLeafPaths == {<<Elem("plain", NoKeys), Elem("a", NoKeys)>>, <<Elem("plain", NoKeys), Elem("ab", NoKeys)>>,
                   <<Elem("plain", NoKeys), Elem("sub", NoKeys), Elem("s", NoKeys)>>,
                   <<Elem("sys", NoKeys), Elem("host", NoKeys)>>, <<Elem("sys", NoKeys), Elem("hostname", NoKeys)>>}
LeafPaths == EntryLeafPaths \cup PlainLeafPaths
ContainerPaths == {<<Elem("plain", NoKeys)>>, <<Elem("plain", NoKeys), Elem("sub", NoKeys)>>, <<Elem("sys", NoKeys)>>}
                  \cup {<<Elem(l, NoKeys)>> : l \in ListNames}
NodePaths == LeafPaths \cup EntryPaths \cup ContainerPaths

\* q is an ancestor of (or equal to) p: element-wise, a list element without keys stands for the whole list
ElemCovers(a, b) == a.name = b.name /\ (a.keys = NoKeys \/ a.keys = b.keys)
AncestorOrSelf(q, p) == /\ Len(q) <= Len(p)
                        /\ \A i \in 1..Len(q) : ElemCovers(q[i], p[i])
                        /\ \A j \in 1..(Len(q) - 1) : q[j].keys = p[j].keys

\* ---- conventions ----------------------------------------------------------------------
ElemStrings(e) == IF e.keys = NoKeys THEN <<e.name>>
                  ELSE <<e.name>> \o [i \in 1..Len(SortedKeys[e.name]) |-> e.keys[SortedKeys[e.name][i]]]
ToStrings(p) == FlattenSeq([i \in 1..Len(p) |-> ElemStrings(p[i])])
\* schema driven inverse: a list name is followed by its key values in sorted key name order
RECURSIVE ToPath(_)
ToPath(s) == IF s = <<>> THEN <<>>
             ELSE LET n == Head(s) IN
                  IF n \in ListNames /\ Len(s) > Len(SortedKeys[n])
                  THEN LET k == Len(SortedKeys[n])
                           f == [kn \in {SortedKeys[n][i] : i \in 1..k} |-> s[1 + (CHOOSE j \in 1..k : SortedKeys[n][j] = kn)]]
                       IN <<Elem(n, f)>> \o ToPath(SubSeq(s, k + 2, Len(s)))
                  ELSE <<Elem(n, NoKeys)>> \o ToPath(Tail(s))
\* the joined index key
RECURSIVE Join(_)
Join(s) == IF Len(s) = 0 THEN "" ELSE IF Len(s) = 1 THEN s[1] ELSE s[1] \o "_" \o Join(Tail(s))

\* ---- the laws ---------------------------------------------------------------------------
RoundTripStrings == \A p \in NodePaths : Len(p) > 0 /\ (p \in LeafPaths \/ p \in EntryPaths \/ p \in ContainerPaths) => ToPath(ToStrings(p)) = p
InjectiveStrings == \A p, q \in NodePaths : p # q => ToStrings(p) # ToStrings(q)
PrefixIsAncestor == \A p \in LeafPaths, q \in NodePaths : IsPrefix(ToStrings(q), ToStrings(p)) => AncestorOrSelf(q, p)
\* what J would have to satisfy (it does not):
JoinCollisions == {<<p, q>> \in LeafPaths \X LeafPaths : p # q /\ Join(ToStrings(p)) = Join(ToStrings(q))}
=============================================================================
