----------------------------- MODULE NetconfGen -----------------------------
EXTENDS Netconf, Json
Emit == Done => PrintT(<<"NCBEH", ToJson([commitds |-> CommitDS, doc |-> Doc, plan |-> plan, calls |-> calls, ret |-> ret])>>)
=============================================================================
