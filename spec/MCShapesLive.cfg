SPECIFICATION Spec
CONSTANTS
  Entries = {"set_dry", "get", "xml"}
  Nodes = {"container", "entry2", "leaf.string"}
  PathShapes = {"exact", "unknown_last"}
  KeyShapes = {"ok", "one_missing"}
  ValKinds = {"string", "nil", "json_deep"}
  ListNodes = {"entry2"}
  MultiKeyNodes = {"entry2"}
  ValuelessEntries = {"get"}
  TextEntries = {"xml"}
  TextVals = {"string"}
INVARIANT TypeOK
PROPERTY AlwaysAnswered
CHECK_DEADLOCK FALSE
