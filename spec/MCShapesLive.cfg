SPECIFICATION Spec
CONSTANTS
  Entries = {"set_dry", "get", "xml"}
  Nodes = {"container", "entry2", "leaf.string"}
  PathShapes = {"exact", "unknown_last", "twice", "plus_keyless_before"}
  KeyShapes = {"ok", "one_missing"}
  ValKinds = {"string", "nil", "json_deep"}
  ListNodes = {"entry2"}
  MultiKeyNodes = {"entry2"}
  ValuelessEntries = {"get"}
  TextEntries = {"xml"}
  TextVals = {"string"}
  MultiEntries = {"set_dry", "get"}
  CompoundPaths = {"twice", "plus_keyless_before"}
  KeylessPaths = {"plus_keyless_before"}
INVARIANT TypeOK
PROPERTY AlwaysAnswered
CHECK_DEADLOCK FALSE
