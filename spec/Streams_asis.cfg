SPECIFICATION Spec
CONSTANTS
  N = 3
  ErrCap = 1
  UseOnce = FALSE
  MaxTicks = 2
INVARIANTS NoPanic
PROPERTIES EndsWhenClientDoes NoStuckReporter
CHECK_DEADLOCK FALSE
