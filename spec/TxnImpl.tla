------------------------------ MODULE TxnImpl ------------------------------
(***************************************************************************)
(* Lock / timer / yield-point model of the transaction life cycle:         *)
(*   Datastore.TransactionSet / TransactionConfirm / TransactionCancel     *)
(*   (pkg/datastore/transaction_rpc.go), TransactionManager                *)
(*   (types/transaction_manager.go), Transaction + TransactionCancelTimer  *)
(*   (types/transaction.go, transaction_cancel_timer.go).                  *)
(*                                                                         *)
(* One transaction T1 has been applied and its rollback timer is armed.    *)
(* Concurrently: Confirm(ConfirmId), Cancel(CancelId), the timer goroutine *)
(* of T1 and a competing TransactionSet(T2).  One action = what a          *)
(* goroutine does from one yield point to the next; yield points sit       *)
(* BEFORE every lock acquisition (dmutex.TryLock, tmMutex.Lock) and at     *)
(* the moment the timer has fired, so in a schedule-following run of the   *)
(* real code no goroutine ever waits on a mutex.  The labels are the       *)
(* names of the verif yield points in the code.                            *)
(*                                                                         *)
(* Protocol (as repaired, see known_findings.txt):                         *)
(*  - timer path: fire, then acquire tmMutex, then act ONLY if the slot    *)
(*    still holds its own, unresolved transaction                          *)
(*  - Stop is idempotent                                                   *)
(*  - Confirm/Cancel check the id before any side effect                   *)
(*  - a Set waiting for the slot does not hold dmutex while it sleeps      *)
(***************************************************************************)
EXTENDS Integers, Sequences, FiniteSets, TLC

CONSTANTS Ops,        \* subset of {"confirm", "cancel", "set2"}
          ConfirmId,  \* id used by Confirm: "T1" or "X" (wrong / stale id)
          CancelId,   \* id used by Cancel
          MaxRetry    \* registration attempts of Set(T2) before its context expires

None == "none"
Procs == Ops \cup {"timer"}

VARIABLES dmutex,     \* holder of the datastore mutex or None
          slot,       \* registered transaction: "T1", "T2" or None
          done,       \* T1's timer: "open" (armed), "closed" (stopped)
          pc,         \* per process: the yield point it is parked at, or "exit"
          ret,        \* answers clients received
          rollbacks,  \* how often T1 was rolled back
          armed2,     \* T2 applied and its own timer armed
          tries,      \* registration attempts of set2
          sched       \* history: the schedule (sequence of <<process, yield point left, next point where it matters>>)
vars == <<dmutex, slot, done, pc, ret, rollbacks, armed2, tries, sched>>
view == <<dmutex, slot, done, pc, ret, rollbacks, armed2, tries>>

Init == /\ dmutex = None /\ slot = "T1" /\ done = "open"
        /\ pc = [p \in Procs |-> CASE p = "timer" -> "timer.armed"
                                   [] p = "confirm" -> "confirm.trylock"
                                   [] p = "cancel" -> "cancel.trylock"
                                   [] p = "set2" -> "set.trylock"]
        /\ ret = [p \in Procs |-> "-"]
        /\ rollbacks = 0 /\ armed2 = FALSE /\ tries = 0 /\ sched = <<>>

Goto(p, l) == pc' = [pc EXCEPT ![p] = l]
Ret(p, r) == ret' = [ret EXCEPT ![p] = r]
Step(p, to) == sched' = Append(sched, <<p, pc[p], to>>)
StopTimer == done' = "closed"          \* idempotent

\* ---- timer goroutine of T1 ----------------------------------------------------------
\* the timer fires (possible until it has been stopped); parks at "timer.fired"
TimerFire == /\ pc["timer"] = "timer.armed" /\ done = "open"
             /\ Goto("timer", "timer.fired") /\ Step("timer", "timer.fired")
             /\ UNCHANGED <<dmutex, slot, done, ret, rollbacks, armed2, tries>>
\* stopped before it fired: the goroutine ends
TimerStopped == /\ pc["timer"] = "timer.armed" /\ done = "closed"
                /\ Goto("timer", "exit") /\ Ret("timer", "stopped") /\ Step("timer", "exit")
                /\ UNCHANGED <<dmutex, slot, done, rollbacks, armed2, tries>>
\* fired: Transaction.rollback() runs up to the yield point before the manager's mutex
TimerProceed == /\ pc["timer"] = "timer.fired"
                /\ Goto("timer", "timer.lock") /\ Step("timer", "timer.lock")
                /\ UNCHANGED <<dmutex, slot, done, ret, rollbacks, armed2, tries>>
\* acquire tmMutex, roll back only if T1 is still registered and unresolved
TimerRollback == /\ pc["timer"] = "timer.lock"
                 /\ IF slot = "T1" /\ done = "open"
                    THEN /\ StopTimer /\ rollbacks' = rollbacks + 1 /\ slot' = None /\ Ret("timer", "rolledback")
                    ELSE /\ UNCHANGED <<done, rollbacks, slot>> /\ Ret("timer", "noop")
                 /\ Goto("timer", "exit") /\ Step("timer", "exit")
                 /\ UNCHANGED <<dmutex, armed2, tries>>

\* ---- Confirm(ConfirmId) ---------------------------------------------------------------
ConfirmTry == /\ "confirm" \in Ops /\ pc["confirm"] = "confirm.trylock"
              /\ IF dmutex = None THEN dmutex' = "confirm" /\ Goto("confirm", "confirm.lock") /\ ret' = ret
                 ELSE dmutex' = dmutex /\ Goto("confirm", "exit") /\ Ret("confirm", "locked")
              /\ Step("confirm", "-")
              /\ UNCHANGED <<slot, done, rollbacks, armed2, tries>>
ConfirmBody == /\ "confirm" \in Ops /\ pc["confirm"] = "confirm.lock"
               /\ IF slot # None /\ slot = ConfirmId
                  THEN /\ (IF slot = "T1" THEN StopTimer ELSE done' = done)
                       /\ armed2' = (IF slot = "T2" THEN FALSE ELSE armed2)
                       /\ slot' = None /\ Ret("confirm", "ok")
                  ELSE /\ UNCHANGED <<done, slot, armed2>> /\ Ret("confirm", "err")
               /\ dmutex' = None /\ Goto("confirm", "exit") /\ Step("confirm", "-")
               /\ UNCHANGED <<rollbacks, tries>>

\* ---- Cancel(CancelId) -----------------------------------------------------------------
CancelTry == /\ "cancel" \in Ops /\ pc["cancel"] = "cancel.trylock"
             /\ IF dmutex = None THEN dmutex' = "cancel" /\ Goto("cancel", "cancel.lock") /\ ret' = ret
                ELSE dmutex' = dmutex /\ Goto("cancel", "exit") /\ Ret("cancel", "locked")
             /\ Step("cancel", "-")
             /\ UNCHANGED <<slot, done, rollbacks, armed2, tries>>
CancelBody == /\ "cancel" \in Ops /\ pc["cancel"] = "cancel.lock"
              /\ IF slot # None /\ slot = CancelId
                 THEN /\ (IF slot = "T1" THEN StopTimer /\ rollbacks' = rollbacks + 1
                                         ELSE done' = done /\ rollbacks' = rollbacks)
                      /\ armed2' = (IF slot = "T2" THEN FALSE ELSE armed2)
                      /\ slot' = None /\ Ret("cancel", "ok")
                 ELSE /\ UNCHANGED <<done, slot, rollbacks, armed2>> /\ Ret("cancel", "err")
              /\ dmutex' = None /\ Goto("cancel", "exit") /\ Step("cancel", "-")
              /\ UNCHANGED tries

\* ---- TransactionSet(T2) ---------------------------------------------------------------
SetTry == /\ "set2" \in Ops /\ pc["set2"] = "set.trylock"
          /\ IF dmutex = None THEN dmutex' = "set2" /\ Goto("set2", "set.register") /\ ret' = ret
             ELSE dmutex' = dmutex /\ Goto("set2", "exit") /\ Ret("set2", "locked")
          /\ Step("set2", "-")
          /\ UNCHANGED <<slot, done, rollbacks, armed2, tries>>
\* one registration attempt (holding dmutex): success runs the whole pipeline and arms T2's timer;
\* failure releases dmutex for the time it sleeps and parks at "set.relock"
SetRegister == /\ "set2" \in Ops /\ pc["set2"] = "set.register" /\ dmutex = "set2"
               /\ IF slot = None
                  THEN /\ slot' = "T2" /\ armed2' = TRUE /\ dmutex' = None
                       /\ Goto("set2", "exit") /\ Ret("set2", "ok") /\ tries' = tries
                  ELSE IF tries + 1 >= MaxRetry
                  THEN /\ dmutex' = None /\ Goto("set2", "exit") /\ Ret("set2", "locked") /\ tries' = tries + 1
                       /\ UNCHANGED <<slot, armed2>>
                  ELSE /\ dmutex' = None /\ Goto("set2", "set.relock") /\ tries' = tries + 1 /\ ret' = ret
                       /\ UNCHANGED <<slot, armed2>>
               /\ Step("set2", "-")
               /\ UNCHANGED <<done, rollbacks>>
\* after the sleep: take dmutex again (blocking Lock: enabled only when free)
SetRelock == /\ "set2" \in Ops /\ pc["set2"] = "set.relock" /\ dmutex = None
             /\ dmutex' = "set2" /\ Goto("set2", "set.register") /\ Step("set2", "-")
             /\ UNCHANGED <<slot, done, ret, rollbacks, armed2, tries>>

Next == TimerFire \/ TimerStopped \/ TimerProceed \/ TimerRollback
        \/ ConfirmTry \/ ConfirmBody \/ CancelTry \/ CancelBody
        \/ SetTry \/ SetRegister \/ SetRelock
Spec == Init /\ [][Next]_vars /\ WF_vars(Next)

AllDone == \A p \in Procs : pc[p] = "exit"

\* ---- C16 ------------------------------------------------------------------------------
ConfirmedKept  == ("confirm" \in Ops /\ ConfirmId = "T1" /\ ret["confirm"] = "ok") => rollbacks = 0
CancelledOnce  == ("cancel" \in Ops /\ CancelId = "T1" /\ ret["cancel"] = "ok") => rollbacks = 1
AtMostOnce     == rollbacks <= 1
\* kept or rolled back exactly once, in agreement with the answers
ExactlyOnce    == AllDone => (rollbacks = 1 <=> ~("confirm" \in Ops /\ ConfirmId = "T1" /\ ret["confirm"] = "ok"))
\* a newer transaction is never unregistered by the old transaction's timer
NewerSurvives  == ("set2" \in Ops /\ ret["set2"] = "ok") =>
                     (slot = "T2" \/ ("confirm" \in Ops /\ ConfirmId = "T2" /\ ret["confirm"] = "ok")
                                  \/ ("cancel" \in Ops /\ CancelId = "T2" /\ ret["cancel"] = "ok"))
WrongIdNoEffect == /\ ("confirm" \in Ops /\ ConfirmId = "X") => ret["confirm"] \in {"-", "err", "locked"}
                   /\ ("cancel" \in Ops /\ CancelId = "X") => ret["cancel"] \in {"-", "err", "locked"}
\* Confirm/Cancel are never refused while Set(T2) merely waits: it holds dmutex only around one attempt
NotRefusedByWaiter == (dmutex = "set2") => ("set2" \in Ops /\ pc["set2"] = "set.register")
\* at most one transaction registered and T2 only armed while registered
SlotSane == armed2 => slot = "T2"
Terminates == <>AllDone
=============================================================================
