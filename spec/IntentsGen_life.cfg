SPECIFICATION GSpec
CONSTANTS
  Owner = {"A", "B", "C"}
  Prio = {5, 7, 8, 10, 12}
  PrioOf <- GenPrioOf
  Leaf <- GenLifeLeaf
  MaxUpd = 2
  MaxIntents = 2
  TxnId = {"t1", "t2"}
  WithFaults = FALSE
  FailKinds = {"none", "device"}
  TmoKinds = {"short", "long"}
  Disabled = {}
  UseBad = FALSE
  WithLifecycle = TRUE
  InitDevice <- GenLifeInit
INVARIANT Emit
CHECK_DEADLOCK FALSE
