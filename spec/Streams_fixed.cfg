SPECIFICATION Spec
CONSTANTS
  N = 3
  ErrCap = 3
  UseOnce = TRUE
  MaxTicks = 2
INVARIANTS NoPanic
PROPERTIES EndsWhenClientDoes NoStuckReporter
CHECK_DEADLOCK FALSE
