SPECIFICATION Spec
CONSTANTS MaxInc = 3  Vals = {"a", "b"}  Refuses = {TRUE, FALSE}  StopResolves = TRUE
INVARIANTS TypeOK DeletedIsSilent ArmedOnlyWhileRegistered
CHECK_DEADLOCK FALSE
