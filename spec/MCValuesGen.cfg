SPECIFICATION GSpec
CONSTANTS
  VLeaf <- Fam_types
  SupplyForms <- MCSupply
  ReportForms <- MCReport
VIEW view
CHECK_DEADLOCK FALSE
