------------------------------- MODULE Intents -------------------------------
(***************************************************************************)
(* The datastore as a transaction driven state machine, one action per     *)
(* externally visible effect of Datastore.TransactionSet                   *)
(* (pkg/datastore/transaction_rpc.go lowlevelTransactionSet):              *)
(*                                                                         *)
(*   TxBegin     register the transaction, build the merge tree, validate  *)
(*   TxReject    validation errors: answer, nothing written                *)
(*   TxDryRun    dry run: answer with the predicted change, nothing written*)
(*   TxApply     target.Set - the device receives the change               *)
(*   TxApplyFail the device refuses: error, nothing persisted              *)
(*   TxPersistIntent(o)  one cache Modify per intent (intended store)      *)
(*   TxPersistRunning    optimistic write back to the running mirror       *)
(*   TxArm       rollback timer armed, answer ok                           *)
(*   Fail        a cache/schema call fails between two effects             *)
(*   Restart     process restart over the same cache                       *)
(*   Confirm / Cancel / Wait (expiry; rollback = same pipeline, old content)*)
(*   EnvSync     the device's own sync refreshes the running mirror        *)
(***************************************************************************)
EXTENDS IntentsSem

CONSTANTS Owner,        \* intent names
          Prio,         \* priorities (numerically lower wins)
          PrioOf,       \* [Owner -> SUBSET Prio]: priorities an owner may use (bounds the model)
          Leaf,         \* abstract leaf ids of this configuration (subset of AllLeaf)
          MaxUpd,       \* max non-key leaves per intent
          MaxIntents,   \* max intents per transaction (1 or 2)
          TxnId,        \* transaction ids
          WithFaults,   \* BOOLEAN: enable Fail / Restart (faults between two effects)
          FailKinds,    \* subset of {"none", "device"}: scripted outcome of the device write
          TmoKinds,     \* subset of {"short", "long"}: transaction timeout classes
          WithLifecycle,\* BOOLEAN: transactions stay open until Confirm/Cancel/Expire
          InitDevice,   \* set of initial device contents (partial functions)
          Disabled,     \* disabled validator classes (C04)
          UseBad        \* BOOLEAN: requests may carry constraint-violating values

VARIABLES intended,   \* intent store: set of [o, p, l, v]
          running,    \* running mirror (cache Store_CONFIG)
          device,     \* southbound device content
          ever,       \* history: leaves some accepted intent has ever defined
          slot,       \* None or [id, armed, snap, req]  (TransactionManager.transaction)
          pend,       \* None or the transaction being executed (window inside TransactionSet)
          answers,    \* observation: <<id, op, ret>> of finished calls
          dryPred,    \* observation: last dry-run prediction [I, d, req, chg] or None
          lastFail    \* history: the last failed TransactionSet [valid, req, I, d] (C07 retry)

vars == <<intended, running, device, ever, slot, pend, answers, dryPred, lastFail>>
view == <<intended, running, device, ever, slot, pend, lastFail>>

NoPend == [phase |-> "idle"]
NoSlot == [id |-> "none", armed |-> FALSE, snap |-> {}, req |-> {}, tmo |-> "long"]
NoChg == [upd |-> {}, del |-> {}]
NoPred == [valid |-> FALSE]
NoFail == [valid |-> FALSE]
\* a failed attempt is remembered from its FIRST failure until the request succeeds
Failed(req, I, d) == IF lastFail.valid /\ lastFail.req = req THEN lastFail
                     ELSE [valid |-> TRUE, req |-> req, I |-> I, d |-> d]
Idle == pend.phase = "idle"
Free == slot.id = "none"
Val(l) == UVals[l] \cup (IF UseBad THEN {b[2] : b \in {x \in UBad : x[1] = l}} ELSE {})
NonKey == Leaf \ UKeyLeaf

\* ---- request space (bounded)
UpdSets == {S \in SUBSET NonKey : Cardinality(S) <= MaxUpd /\ S # {}}
CloseKeys(S) == S \cup {k \in UKeyLeaf \cap Leaf : \E l \in S : EntryOf(l) = UEntryOf[k]}
Contents == UNION {{ {<<l, IF IsKey(l) THEN "key" ELSE f[l]>> : l \in CloseKeys(S)} : f \in [S -> UNION {Val(l) : l \in S}] } : S \in UpdSets}
GoodContent(u) == OneCasePerChoice(u) /\ \A q \in u : IsKey(q[1]) \/ q[2] \in Val(q[1])
OP == {op \in Owner \X Prio : op[2] \in PrioOf[op[1]]}
IntentSet == {[o |-> op[1], p |-> op[2], kind |-> "set", upd |-> u] : op \in OP, u \in {c \in Contents : GoodContent(c)}}
IntentDel == {[o |-> o, p |-> (CHOOSE p \in PrioOf[o] : TRUE), kind |-> k, upd |-> {}] : o \in Owner, k \in {"del", "orphan"}}
Intent == IntentSet \cup IntentDel
Request == {{i} : i \in Intent} \cup
           (IF MaxIntents >= 2 THEN {{i, j} : i \in Intent, j \in Intent} ELSE {})
GoodRequest(R) == DistinctOwners(R) /\ PrioOK(intended, R)

\* validity of the resulting configuration (C04); the core universes carry no constraint
Valid(cfg) == ValidCfg(cfg, Disabled)
ResultCfg(I2, d, R) == ResultOf(I2, d, ever, Orphaned(intended, R))

Init == /\ intended = {}
        /\ device \in InitDevice
        /\ running = device
        /\ ever = {}
        /\ slot = NoSlot
        /\ pend = NoPend
        /\ answers = <<>>
        /\ dryPred = NoPred
        /\ lastFail = NoFail

Answer(id, op, ret) == answers' = Append(answers, <<id, op, ret>>)

\* ---- TransactionSet pipeline -------------------------------------------------------
TxRefused(id) ==
    /\ Idle /\ ~Free
    /\ Answer(id, "set", "locked")
    /\ UNCHANGED <<intended, running, device, ever, slot, pend, dryPred, lastFail>>

TxBegin(id, R, dry, fail, tmo) ==
    /\ Idle /\ Free
    /\ GoodRequest(R)
    /\ pend' = [id |-> id, req |-> R, dry |-> dry, phase |-> "begun", rb |-> FALSE, fail |-> fail,
                pre |-> [I |-> intended, d |-> device, r |-> running],
                snap |-> SnapOf(intended, R), todo |-> ReqOwners(R), chg |-> NoChg]
    /\ slot' = [id |-> id, armed |-> FALSE, snap |-> SnapOf(intended, R), req |-> R, tmo |-> tmo]
    \* C07 speaks about repeating the SAME request right after the fault
    /\ lastFail' = IF lastFail.valid /\ (lastFail.req # R \/ dry) THEN NoFail ELSE lastFail
    /\ UNCHANGED <<intended, running, device, ever, answers, dryPred>>

Done(ret) == /\ Answer(pend.id, "set", ret)
             /\ pend' = NoPend

TxReject ==
    /\ pend.phase = "begun"
    /\ ~Valid(ResultCfg(NewStore(intended, pend.req), device, pend.req))
    /\ Done("invalid") /\ slot' = NoSlot
    /\ UNCHANGED <<intended, running, device, ever, dryPred, lastFail>>

\* the device result is chosen among the admissible ones (constructive form)
NextDevice(R) ==
    LET I2 == NewStore(intended, R)
        E2 == ever \cup LeavesOf(I2)
        orph == Orphaned(intended, R)
    IN {Constructed(device, E2, I2, orph, keep) : keep \in SUBSET Flexible(device, E2, I2, orph)}

TxDryRun ==
    /\ pend.phase = "begun" /\ pend.dry
    /\ Valid(ResultCfg(NewStore(intended, pend.req), device, pend.req))
    /\ \E d2 \in NextDevice(pend.req) :
         dryPred' = [valid |-> TRUE, I |-> intended, d |-> device, req |-> pend.req, chg |-> MinimalChange(device, d2)]
    /\ Done("ok") /\ slot' = NoSlot
    /\ UNCHANGED <<intended, running, device, ever, lastFail>>

TxApply ==
    /\ pend.phase = "begun" /\ ~pend.dry /\ pend.fail = "none"
    /\ Valid(ResultCfg(NewStore(intended, pend.req), device, pend.req))
    /\ \E d2 \in NextDevice(pend.req) :
         /\ device' = d2
         /\ pend' = [pend EXCEPT !.phase = "applied", !.chg = MinimalChange(device, d2)]
    /\ UNCHANGED <<intended, running, ever, slot, answers, dryPred, lastFail>>

TxApplyFail ==
    /\ pend.phase = "begun" /\ ~pend.dry /\ pend.fail = "device"
    /\ Valid(ResultCfg(NewStore(intended, pend.req), device, pend.req))
    /\ Done("error") /\ slot' = NoSlot
    /\ lastFail' = Failed(pend.req, pend.pre.I, pend.pre.d)
    /\ UNCHANGED <<intended, running, device, ever, dryPred>>

\* one Modify per intent: the owner's old entries are removed (under their OLD priority),
\* its new entries written
TxPersistIntent(o) ==
    /\ pend.phase = "applied" /\ o \in pend.todo
    /\ intended' = {x \in intended : x.o # o} \cup OfOwner(NewStore(pend.pre.I, pend.req), o)
    /\ pend' = [pend EXCEPT !.todo = @ \ {o}]
    /\ UNCHANGED <<running, device, ever, slot, answers, dryPred, lastFail>>

TxPersistRunning ==
    /\ pend.phase = "applied" /\ pend.todo = {}
    /\ running' = ApplyChange(running, pend.chg)
    /\ pend' = [pend EXCEPT !.phase = "persisted"]
    /\ UNCHANGED <<intended, device, ever, slot, answers, dryPred, lastFail>>

TxArm ==
    /\ pend.phase = "persisted"
    /\ ever' = EverAfter(ever, pend.pre.I, pend.req, intended, device)
    /\ lastFail' = IF lastFail.valid /\ lastFail.req = pend.req THEN NoFail ELSE lastFail
    /\ slot' = IF WithLifecycle THEN [slot EXCEPT !.armed = TRUE] ELSE NoSlot
    /\ Done("ok")
    /\ UNCHANGED <<intended, running, device, dryPred>>

\* a cache or schema call fails between two effects: error answer, slot released by the guard
Fail ==
    /\ WithFaults
    /\ pend.phase \in {"begun", "applied", "persisted"}
    /\ ever' = ever \cup LeavesOf(intended)
    /\ Done("error") /\ slot' = NoSlot
    /\ lastFail' = Failed(pend.req, pend.pre.I, pend.pre.d)
    /\ UNCHANGED <<intended, running, device, dryPred>>

\* process restart: in-memory state is lost, the cache and the device persist
Restart ==
    /\ WithFaults /\ ~Idle
    /\ pend' = NoPend /\ slot' = NoSlot
    /\ ever' = ever \cup LeavesOf(intended)
    /\ lastFail' = IF Idle THEN lastFail ELSE Failed(pend.req, pend.pre.I, pend.pre.d)
    /\ UNCHANGED <<intended, running, device, answers, dryPred>>

\* ---- lifecycle ---------------------------------------------------------------------
Confirm(id) ==
    /\ Idle
    /\ IF ~Free /\ slot.id = id /\ slot.armed
       THEN slot' = NoSlot /\ Answer(id, "confirm", "ok")
       ELSE slot' = slot /\ Answer(id, "confirm", "error")
    /\ UNCHANGED <<intended, running, device, ever, pend, dryPred, lastFail>>

\* rollback: the old content of the transaction's intents is re-applied as a transaction
RollbackReq(snap, R) ==
    {IF s.old = {} THEN [o |-> s.o, p |-> (CHOOSE i \in R : i.o = s.o).p, kind |-> "del", upd |-> {}]
     ELSE [o |-> s.o, p |-> (CHOOSE x \in s.old : TRUE).p, kind |-> "set", upd |-> {<<x.l, x.v>> : x \in s.old}]
     : s \in snap}

DoRollback ==
    LET RR == RollbackReq(slot.snap, slot.req)
        I2 == RestoredStore(intended, slot.snap)
        E2 == ever \cup LeavesOf(I2)
    IN /\ intended' = I2
       /\ \E d2 \in {Constructed(device, E2, I2, {}, keep) : keep \in SUBSET Flexible(device, E2, I2, {})} :
            /\ device' = d2
            /\ running' = ApplyChange(running, MinimalChange(device, d2))
       /\ ever' = E2
       /\ slot' = NoSlot

Cancel(id) ==
    /\ Idle
    /\ IF ~Free /\ slot.id = id /\ slot.armed
       THEN DoRollback /\ Answer(id, "cancel", "ok")
       ELSE /\ Answer(id, "cancel", "error")
            /\ UNCHANGED <<intended, running, device, ever, slot>>
    /\ UNCHANGED <<pend, dryPred, lastFail>>

\* time passes: more than the short transaction timeout, less than the long one.  An armed
\* short transaction is rolled back by its timer; nothing else may happen.
Wait ==
    /\ Idle
    /\ IF ~Free /\ slot.armed /\ slot.tmo = "short"
       THEN DoRollback
       ELSE UNCHANGED <<intended, running, device, ever, slot>>
    /\ UNCHANGED <<pend, answers, dryPred, lastFail>>

\* the device's own sync refreshes the mirror
EnvSync ==
    /\ Idle /\ running # device
    /\ running' = device
    /\ UNCHANGED <<intended, device, ever, slot, pend, answers, dryPred, lastFail>>

Next ==
    \/ \E id \in TxnId, R \in Request, dry \in BOOLEAN, f \in FailKinds, t \in TmoKinds : TxBegin(id, R, dry, f, t)
    \/ \E id \in TxnId : TxRefused(id)
    \/ TxReject \/ TxDryRun \/ TxApply \/ TxApplyFail
    \/ \E o \in Owner : TxPersistIntent(o)
    \/ TxPersistRunning \/ TxArm \/ Fail \/ Restart
    \/ \E id \in TxnId : Confirm(id) \/ Cancel(id)
    \/ Wait \/ EnvSync

Spec == Init /\ [][Next]_vars

\* ---- properties ---------------------------------------------------------------------
Quiet == Idle
TypeOK == /\ \A x \in intended : x.o \in Owner /\ x.p \in Prio /\ x.l \in Leaf
          /\ DOMAIN device \subseteq AllLeaf /\ DOMAIN running \subseteq AllLeaf

\* C01: at rest and without faults the device carries the merged configuration
Converged == (Quiet /\ ~WithFaults) => AdmConverged(device, intended)
\* C02
StoreShape == Quiet => (OnePrioPerOwner(intended) /\ OneValuePerKey(intended))
\* C04: whatever was applied is a valid configuration (initial device contents are valid)
DeviceValid == (Quiet /\ ~WithFaults) => Valid(device)
\* C08
OneCase == (Quiet /\ ~WithFaults) =>
    \A l1, l2 \in DOMAIN device : (ChoiceOf(l1) # NoChoice /\ ChoiceOf(l1) = ChoiceOf(l2)
                                   /\ l1 \in ever /\ l2 \in ever) => CaseOf(l1) = CaseOf(l2)
\* C06: at most one transaction, and a slot without a timer exists only while a Set runs
SlotSane == (Idle /\ ~Free) => slot.armed
\* C01: every apply step is admissible in the predicate form (constructive => predicate)
ApplyAdmissible ==
    [][(pend.phase = "begun" /\ pend'.phase = "applied") =>
         LET I2 == NewStore(intended, pend.req)
         IN Admissible(device, device', ever \cup LeavesOf(I2), I2, Orphaned(intended, pend.req))]_vars
\* C03: reject / dry run change nothing
NoEffectSteps ==
    [][(~Idle /\ pend' = NoPend /\ answers' # answers /\ Len(answers') > 0
        /\ answers'[Len(answers')][3] \in {"invalid"}) =>
         (intended' = pend.pre.I /\ device' = pend.pre.d /\ running' = pend.pre.r)]_vars
\* C07: the first success of a request that failed before ends in the fault-free result:
\* the store the request denotes from the pre-fault store, and a device admissible from the pre-fault device
RetryConverges ==
    [][(pend.phase = "persisted" /\ pend' = NoPend /\ lastFail.valid /\ lastFail.req = pend.req) =>
         LET I2 == NewStore(lastFail.I, pend.req)
         IN /\ intended' = I2
            /\ AdmConverged(device', I2)
            /\ AdmOneCase(device', I2)]_vars
\* C07: a device failure is all-or-nothing
DeviceFailAtomic ==
    [][(pend.phase = "begun" /\ pend' = NoPend /\ pend.fail = "device" /\ Len(answers') > Len(answers)
        /\ answers'[Len(answers')][3] = "error") =>
         (intended' = pend.pre.I /\ running' = pend.pre.r /\ device' = pend.pre.d /\ slot' = NoSlot)]_vars
\* C05: after a rollback the store equals the snapshot and touched leaves are back
RollbackRestores ==
    [][(Idle /\ ~Free /\ slot' = NoSlot /\ intended' # intended) =>
         intended' = RestoredStore(intended, slot.snap)]_vars
=============================================================================
