SPECIFICATION Spec
CONSTANTS
  Owner = {"A", "B"}
  Prio = {5, 7, 10}
  PrioOf <- FaultPrioOf
  Leaf <- FaultLeafQ
  MaxUpd = 1
  MaxIntents = 2
  TxnId = {"t1"}
  WithFaults = TRUE
  FailKinds = {"none", "device"}
  TmoKinds = {"short"}
  Disabled = {}
  UseBad = FALSE
  WithLifecycle = FALSE
  InitDevice <- FaultInitQ
VIEW view
INVARIANTS TypeOK Converged StoreShape OneCase SlotSane
PROPERTIES ApplyAdmissible NoEffectSteps RollbackRestores RetryConverges DeviceFailAtomic
CHECK_DEADLOCK FALSE
