SPECIFICATION Spec
CONSTANTS
  CommitDS = "candidate"
  Doc = "nonempty"
INVARIANTS SuccessShape EmptyNoCalls ExactlyOneEdit NoLeftovers DiscardAfterFailure CommittedOnce Emit
CHECK_DEADLOCK FALSE
