SPECIFICATION GSpec
CONSTANTS
  Ops = {"confirm", "cancel", "set2"}
  ConfirmId = "T1"
  CancelId = "T1"
  MaxRetry = 2
INVARIANT Emit
CHECK_DEADLOCK FALSE
