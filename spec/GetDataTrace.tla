---------------------------- MODULE GetDataTrace ----------------------------
(* Validation of real Datastore.Get calls against GetDataSem: every trace line carries the store contents,   *)
(* the request and the decoded answer (leaf, datum pairs; JSON documents decoded structurally).              *)
EXTENDS GetDataSem, Json, IOUtils, SequencesExt

TraceFile == IOEnv.VERIF_TRACE
OutFile == IOEnv.VERIF_OUT
Trace == ndJsonDeserialize(TraceFile)
VARIABLES l, bad, nt
tvars == <<l, bad, nt>>
SeqRange(s) == {s[i] : i \in 1..Len(s)}
PairsToFun(P) == [k \in {q[1] : q \in P} |-> (CHOOSE q \in P : q[1] = k)[2]]
FunOf(s) == PairsToFun({<<q[1], q[2]>> : q \in SeqRange(s)})
IntendedOf(e) == {[o |-> q[1], p |-> q[2], l |-> q[3], v |-> q[4]] : q \in SeqRange(e.intended)}
ReqOf(e) == Req(e.req.type, e.req.dt, e.req.enc, SeqRange(e.req.paths), e.req.owner, e.req.prio)
ExpectedFun(e) == Answer(FunOf(e.config), FunOf(e.state), IntendedOf(e), ReqOf(e))
Expected(e) == {<<k, ExpectedFun(e)[k]>> : k \in DOMAIN ExpectedFun(e)}
ObservedRaw(e) == {<<q[1], q[2]>> : q \in SeqRange(e.leaves)}
\* a JSON document identifies a list entry by its key members: key leaves that accompany another returned
\* leaf of the same entry are addressing, not content
IsJson(e) == e.req.enc \in {"JSON", "JSON_IETF"}
Addressing(e, q) == /\ IsJson(e) /\ q[1] \in UKeyLeaf /\ q[2] = "key"
                    /\ \E r \in ObservedRaw(e) : r[1] \notin UKeyLeaf /\ r[1] \in AllLeaf /\ UEntryOf[r[1]] = UEntryOf[q[1]]
Observed(e) == {q \in ObservedRaw(e) : q \in Expected(e) \/ ~Addressing(e, q)}


Clauses(e) ==
  IF IsError(ReqOf(e))
  THEN {<<"C14", "ErrorsNotPartial", e.ret = "error" /\ Len(e.leaves) = 0>>}
  ELSE {<<"C14", "Succeeds", e.ret = "ok">>,
        <<"C14", "NothingMissing", Expected(e) \subseteq Observed(e)>>,
        <<"C14", "NothingOutside", \A q \in Observed(e) : q[1] \in Covered(ReqOf(e).paths)>>,
        <<"C14", "NothingExtra", Observed(e) \subseteq Expected(e)>>}
        \* (a leaf may be returned more than once when requested paths overlap: the property does not exclude it)

Init == l = 1 /\ bad = {} /\ nt = [reqs |-> 0, strict |-> 0]
Failed(cs, line) == {<<c[1], c[2], line>> : c \in {x \in cs : ~x[3]}}
\* non-trivial: the request selects a strict, non-empty subset of a non-empty store
Strict(e) == ~IsError(ReqOf(e)) /\ Expected(e) # {} /\ Cardinality(Expected(e)) < Len(e.config) + Len(e.state) + Len(e.intended)
Step == /\ l <= Len(Trace)
        /\ LET e == Trace[l] IN
             /\ bad' = bad \cup Failed(Clauses(e), l)
             /\ nt' = [reqs |-> nt.reqs + 1, strict |-> nt.strict + (IF Strict(e) THEN 1 ELSE 0)]
        /\ l' = l + 1
Finish == /\ l = Len(Trace) + 1
          /\ JsonSerialize(OutFile, [consumed |-> l - 1, total |-> Len(Trace), bad |-> SetToSeq(bad), nt |-> nt])
          /\ l' = l + 1 /\ UNCHANGED <<bad, nt>>
Next == Step \/ Finish
Spec == Init /\ [][Next]_tvars
Accepted == TLCGet("stats").diameter = Len(Trace) + 2
=============================================================================
