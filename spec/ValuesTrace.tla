---------------------------- MODULE ValuesTrace ----------------------------
(* Validation of value traces of the real code (harness/drive/values.go) against Values.tla: every line is one    *)
(* Supply / Report / Withdraw step on one leaf with every output form observed after it.  Monitor style: the      *)
(* model state is re-synchronised to the observed stores after every step, so one failure does not cascade.      *)
EXTENDS Values, Json, IOUtils, SequencesExt

TraceFile == IOEnv.VERIF_TRACE
OutFile == IOEnv.VERIF_OUT
Trace == ndJsonDeserialize(TraceFile)
VARIABLES l, bad, nt
tvars == <<l, leaf, iv, rv, act, bad, nt>>
SeqRange(s) == {s[i] : i \in 1..Len(s)}
ObsSet(e) == {<<q[1], q[2]>> : q \in SeqRange(e.obs)}
Names(e) == {q[1] : q \in ObsSet(e)}
ObsOf(e, n, dflt) == IF n \in Names(e) THEN (CHOOSE q \in ObsSet(e) : q[1] = n)[2] ELSE dflt

\* input forms every client / device may rely on; the others are optional spellings: they may be refused,
\* but when they are accepted they must denote the same datum
Canonical == {"typed", "string", "json_doc", "ietf_doc", "dev_typed", "dev_string", "dev_gnmi_typed", "dev_gnmi_ietf", "dev_xml"}
\* the type empty has no lexical value: its string spellings are not forms anybody may rely on
MustAccept(e) == e.f \in Canonical /\ ~(e.d = "e:" /\ e.f \in {"string", "dev_string", "dev_gnmi_typed"})
Wrong(e, forms, want) == {<<"C12", "Same:" \o q[1], TRUE>> : q \in {x \in ObsSet(e) : x[1] \in forms /\ x[2] # want}}

ClausesAt(e, i0, r0) ==
  LET ok == e.ret = "ok"
      r1 == IF e.changed THEN e.d ELSE r0      \* what the running store shows after a Supply
  IN
  IF e.ret = "panic" THEN {<<"C12", "NoCrash", FALSE>>}
  ELSE IF e.op = "supply" THEN
     {<<"C12", "Accepted", MustAccept(e) => ok>>,
      <<"C12", "RefusedHasNoEffect", ~ok => (~e.changed /\ ObsOf(e, "store.intended", i0) = i0 /\ ObsOf(e, "store.running", r0) = r0)>>}
     \cup (IF ~ok THEN {} ELSE
     {<<"C12", "EqualIsNoop", (i0 = e.d /\ r0 = e.d) => ~e.changed>>,
      <<"C12", "DifferentIsWritten", (i0 # e.d /\ r0 # e.d) => (e.changed /\ "dev.proto" \in Names(e))>>,
      <<"C12", "EqualityFunction", \A q \in SeqRange(e.eq) : (q[3] = "true") <=> (q[1] = q[2])>>,
      <<"C12", "OutputsRender", Len(e.obserr) = 0>>,
      <<"M", "AllObserved", Len(e.obserr) = 0 => (IntendedForms \cup RunningForms) \ {"str"} \subseteq Names(e)>>}
     \cup {<<c[1], c[2], FALSE>> : c \in Wrong(e, IntendedForms \cup ChangeForms \cup FullForms, e.d)}
     \cup {<<c[1], c[2], FALSE>> : c \in Wrong(e, RunningForms, r1)})
  ELSE IF e.op = "report" THEN
     {<<"C12", "ReportAccepted", MustAccept(e) => ok>>}
     \cup (IF ~ok THEN {} ELSE
     {<<"C12", "OutputsRender", Len(e.obserr) = 0>>,
      <<"C12", "ReportStored", e.written>>,
      <<"M", "AllObserved", Len(e.obserr) = 0 => RunningForms \subseteq Names(e)>>}
     \cup {<<c[1], c[2], FALSE>> : c \in Wrong(e, RunningForms, e.d)})
  ELSE
     {<<"C12", "WithdrawAccepted", ok>>,
      <<"C12", "WithdrawnIsGone", ok => /\ \A q \in ObsSet(e) : q[1] \in IntendedForms => q[2] = Absent
                                        /\ \A q \in ObsSet(e) : q[1] \in RunningForms => q[2] = (IF i0 # Absent THEN Absent ELSE r0)>>,
      <<"C12", "WithdrawDeletes", ok => /\ (i0 # Absent /\ r0 # Absent) => e.deleted
                                        /\ i0 = Absent => ~e.deleted>>}

Failed(cs, line) == {<<c[1], c[2], line>> : c \in {x \in cs : ~x[3]}}
TInit == /\ l = 1 /\ leaf = "-" /\ iv = Absent /\ rv = Absent /\ act = NoAct /\ bad = {}
         /\ nt = [steps |-> 0, noop |-> 0, written |-> 0, accepted |-> 0, refused |-> 0]
Step == /\ l <= Len(Trace)
        /\ LET e == Trace[l]
               fresh == e.i = 0
               i0 == IF fresh THEN Absent ELSE iv
               r0 == IF fresh THEN Absent ELSE rv
           IN /\ leaf' = e.leaf
              /\ bad' = bad \cup Failed(ClausesAt(e, i0, r0), l)
              \* re-synchronise with what the stores really hold
              /\ iv' = ObsOf(e, "store.intended", i0)
              /\ rv' = ObsOf(e, "store.running", r0)
              /\ act' = [op |-> e.op, d |-> e.d, f |-> e.f, changed |-> e.changed]
              /\ nt' = [steps |-> nt.steps + 1,
                        noop |-> nt.noop + (IF e.op = "supply" /\ e.ret = "ok" /\ r0 = e.d /\ ~e.changed THEN 1 ELSE 0),
                        written |-> nt.written + (IF e.op = "supply" /\ e.ret = "ok" /\ e.changed THEN 1 ELSE 0),
                        accepted |-> nt.accepted + (IF e.ret = "ok" THEN 1 ELSE 0),
                        refused |-> nt.refused + (IF e.ret # "ok" THEN 1 ELSE 0)]
        /\ l' = l + 1
Finish == /\ l = Len(Trace) + 1
          /\ JsonSerialize(OutFile, [consumed |-> l - 1, total |-> Len(Trace), bad |-> SetToSeq(bad), nt |-> nt])
          /\ l' = l + 1 /\ UNCHANGED <<leaf, iv, rv, act, bad, nt>>
TNext == Step \/ Finish
TSpec == TInit /\ [][TNext]_tvars
Accepted == TLCGet("stats").diameter = Len(Trace) + 2
=============================================================================
