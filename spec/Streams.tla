------------------------------ MODULE Streams ------------------------------
(***************************************************************************)
(* Goroutine and channel structure of the periodic phase of                *)
(* Datastore.Subscribe (pkg/datastore/data_rpc.go): one ticker goroutine   *)
(* per subscription, an error channel, a done channel closed by the first  *)
(* failing sender, a wait group the handler waits on.  The environment     *)
(* cancels the client context or makes a Send fail at any point.           *)
(* ErrCap / UseOnce select the repaired protocol (ErrCap = N, UseOnce) or  *)
(* the original one (ErrCap = 1, ~UseOnce).                                *)
(***************************************************************************)
EXTENDS Integers, Sequences, FiniteSets, TLC

CONSTANTS N,        \* subscriptions
          ErrCap,   \* capacity of errCh
          UseOnce,  \* doneCh closed through sync.Once
          MaxTicks  \* bound on successful periodic rounds per goroutine

Subs == 1..N
VARIABLES pc,        \* per goroutine: "select", "report" (about to send on errCh), "close", "exit"
          why,       \* per goroutine: why it reports ("cancel" / "fail")
          errLen, doneClosed, cancelled, returned, panic, ticks, faults
vars == <<pc, why, errLen, doneClosed, cancelled, returned, panic, ticks, faults>>

Init == /\ pc = [s \in Subs |-> "select"] /\ why = [s \in Subs |-> "-"]
        /\ errLen = 0 /\ doneClosed = FALSE /\ cancelled = FALSE /\ returned = FALSE /\ panic = FALSE
        /\ ticks = [s \in Subs |-> 0] /\ faults = <<>>

\* environment
Cancel == ~cancelled /\ cancelled' = TRUE /\ faults' = Append(faults, <<"cancel", 0>>)
          /\ UNCHANGED <<pc, why, errLen, doneClosed, returned, panic, ticks>>

\* goroutine s at its select statement
SelDone(s) == pc[s] = "select" /\ doneClosed /\ pc' = [pc EXCEPT ![s] = "exit"]
              /\ UNCHANGED <<why, errLen, doneClosed, cancelled, returned, panic, ticks, faults>>
SelCancel(s) == pc[s] = "select" /\ cancelled /\ pc' = [pc EXCEPT ![s] = "report"] /\ why' = [why EXCEPT ![s] = "cancel"]
                /\ UNCHANGED <<errLen, doneClosed, cancelled, returned, panic, ticks, faults>>
TickOk(s) == pc[s] = "select" /\ ticks[s] < MaxTicks /\ ~cancelled /\ ticks' = [ticks EXCEPT ![s] = @ + 1]
             /\ UNCHANGED <<pc, why, errLen, doneClosed, cancelled, returned, panic, faults>>
\* the periodic round fails (Send error, or the context was cancelled while sending)
TickFail(s) == pc[s] = "select" /\ pc' = [pc EXCEPT ![s] = "report"] /\ why' = [why EXCEPT ![s] = "fail"]
               /\ faults' = Append(faults, <<"fail", s>>)
               /\ UNCHANGED <<errLen, doneClosed, cancelled, returned, panic, ticks>>
\* errCh <- err : blocks while the channel is full (nobody reads it before wg.Wait returns)
Report(s) == pc[s] = "report" /\ errLen < ErrCap /\ errLen' = errLen + 1
             /\ pc' = [pc EXCEPT ![s] = IF why[s] = "fail" THEN "close" ELSE "exit"]
             /\ UNCHANGED <<why, doneClosed, cancelled, returned, panic, ticks, faults>>
Close(s) == /\ pc[s] = "close"
            /\ doneClosed' = TRUE
            /\ panic' = (panic \/ (doneClosed /\ ~UseOnce))     \* close of a closed channel
            /\ pc' = [pc EXCEPT ![s] = "exit"]
            /\ UNCHANGED <<why, errLen, cancelled, returned, ticks, faults>>
\* handler: wg.Wait()
Return == ~returned /\ (\A s \in Subs : pc[s] = "exit") /\ returned' = TRUE
          /\ UNCHANGED <<pc, why, errLen, doneClosed, cancelled, panic, ticks, faults>>

Next == Cancel \/ Return \/ \E s \in Subs : SelDone(s) \/ SelCancel(s) \/ TickOk(s) \/ TickFail(s) \/ Report(s) \/ Close(s)
Fair == WF_vars(Return) /\ \A s \in Subs : WF_vars(SelDone(s)) /\ WF_vars(SelCancel(s)) /\ WF_vars(Report(s)) /\ WF_vars(Close(s))
Spec == Init /\ [][Next]_vars /\ Fair

\* C19
NoPanic == ~panic
\* once the client is gone or a sender failed, the handler returns and every goroutine ends
EndsWhenClientDoes == (cancelled \/ doneClosed) ~> returned
NoStuckReporter == [](returned => \A s \in Subs : pc[s] = "exit")
=============================================================================
