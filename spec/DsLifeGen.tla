------------------------------ MODULE DsLifeGen ------------------------------
(* Behaviour generation from DsLife: the history variable makes every path a distinct state; every path of *)
(* exactly Depth steps is printed once as JSON (shorter paths are prefixes of these or end in a state      *)
(* without successor and are printed then).                                                               *)
EXTENDS DsLife, Json
CONSTANT Depth
VARIABLE hist
gvars == <<vars, hist>>
Rec(a, v, i) == [act |-> a, v |-> v, i |-> i]
GNext == /\ Len(hist) < Depth
         /\ \/ Create /\ hist' = Append(hist, Rec("Create", "-", next + 1))
            \/ Delete /\ hist' = Append(hist, Rec("Delete", "-", live))
            \/ Confirm /\ hist' = Append(hist, Rec("Confirm", "-", live))
            \/ Cancel /\ hist' = Append(hist, Rec("Cancel", "-", live))
            \/ \E v \in Vals : Set(v) /\ hist' = Append(hist, Rec("Set", v, live))
            \/ \E i \in Incs : TimerFire(i) /\ hist' = Append(hist, Rec("TimerFire", "-", i))
GInit == Init /\ hist = <<>>
GSpec == GInit /\ [][GNext]_gvars
Emit == (Len(hist) = Depth \/ ~ENABLED GNext) => PrintT(<<"BEH", ToJson(hist)>>)
=============================================================================
