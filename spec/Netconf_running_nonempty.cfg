SPECIFICATION Spec
CONSTANTS
  CommitDS = "running"
  Doc = "nonempty"
INVARIANTS SuccessShape EmptyNoCalls ExactlyOneEdit NoLeftovers DiscardAfterFailure CommittedOnce Emit
CHECK_DEADLOCK FALSE
