----------------------------- MODULE IntentsSem -----------------------------
(***************************************************************************)
(* Pure semantic operators of the intent datastore: precedence merge,      *)
(* choice resolution, what the intent store must hold, which device        *)
(* results are admissible, the cache Modify model, rollback targets.       *)
(* No variables: Intents.tla (design-level state machine), IntentsTrace.tla*)
(* (trace validation of the real code) both build on these, so the two     *)
(* cannot drift.                                                           *)
(*                                                                         *)
(* Store entries are records [o, p, l, v]; device / running are partial    *)
(* functions leaf -> datum (absent = not in the domain).                   *)
(***************************************************************************)
EXTENDS Integers, Sequences, FiniteSets, TLC, UniverseData

None == "none"

\* ---- schema shaped accessors, total on arbitrary (also unknown, "?...") leaf ids
EntryOf(l)  == IF l \in AllLeaf THEN UEntryOf[l] ELSE NoEntry
ChoiceOf(l) == IF l \in AllLeaf THEN UChoiceOf[l] ELSE NoChoice
CaseOf(l)   == IF l \in AllLeaf THEN UCaseOf[l] ELSE "-"
IsKey(l)    == l \in UKeyLeaf
DefaultOf(l) == IF l \in AllLeaf THEN UDefault[l] ELSE "-"
KeysOfEntry(e) == {k \in UKeyLeaf : UEntryOf[k] = e}

Entry(o, p, l, v) == [o |-> o, p |-> p, l |-> l, v |-> v]
LeavesOf(I) == {x.l : x \in I}
OwnersOf(I) == {x.o : x \in I}
At(I, l) == {x \in I : x.l = l}
OfOwner(I, o) == {x \in I : x.o = o}

\* partial function helpers
Dom(f) == DOMAIN f
Get(f, l) == IF l \in DOMAIN f THEN f[l] ELSE "absent"
Restrict(f, S) == [l \in (DOMAIN f) \cap S |-> f[l]]
Without(f, S) == [l \in (DOMAIN f) \ S |-> f[l]]
Overlay(f, g) == [l \in (DOMAIN f) \cup (DOMAIN g) |-> IF l \in DOMAIN g THEN g[l] ELSE f[l]]
PairsToFun(P) == [l \in {q[1] : q \in P} |-> (CHOOSE q \in P : q[1] = l)[2]]
FunToPairs(f) == {<<l, f[l]>> : l \in DOMAIN f}
Functional(P) == \A q, r \in P : q[1] = r[1] => q[2] = r[2]

\* ---- precedence merge (C01): the value of the live intent with the numerically lowest priority
Best(I, l) == CHOOSE x \in At(I, l) : \A y \in At(I, l) : x.p <= y.p
\* well defined only when priorities are distinct between owners (requests keep them so)
PrioDistinct(I) == \A x, y \in I : (x.p = y.p) => (x.o = y.o)
OnePrioPerOwner(I) == \A x, y \in I : (x.o = y.o) => (x.p = y.p)
OneValuePerKey(I) == \A x, y \in I : (x.o = y.o /\ x.l = y.l) => x = y

\* ---- choice resolution (C08): the case holding the highest precedence contribution wins
Members(c) == {l \in AllLeaf : UChoiceOf[l] = c}
Contrib(I, c) == {x \in I : ChoiceOf(x.l) = c}
WinCase(I, c) == LET b == CHOOSE x \in Contrib(I, c) : \A y \in Contrib(I, c) : x.p <= y.p
                 IN CaseOf(b.l)
Losing(I, l) == /\ ChoiceOf(l) # NoChoice
                /\ Contrib(I, ChoiceOf(l)) # {}
                /\ CaseOf(l) # WinCase(I, ChoiceOf(l))
EffLeaves(I) == {l \in LeavesOf(I) : ~Losing(I, l)}
\* the effective (merged) configuration the live intents denote
Eff(I) == [l \in EffLeaves(I) |-> Best(I, l).v]

\* ---- requests.  An intent is [o, p, kind, upd] with kind in {"set","del","orphan"} and
\*      upd a set of <<leaf, datum>> pairs (key leaves of every touched list entry included).
ReqOwners(R) == {i.o : i \in R}
SetIntents(R) == {i \in R : i.kind = "set"}
NewEntries(i) == {Entry(i.o, i.p, q[1], q[2]) : q \in i.upd}
\* C02: what the intent store must hold after a successful transaction: entries of the
\* named owners are replaced by their new content, everything else is unchanged.
NewStore(I, R) == {x \in I : x.o \notin ReqOwners(R)} \cup UNION {NewEntries(i) : i \in SetIntents(R)}
\* leaves whose last definer is removed by an orphan delete (device may keep them)
Orphaned(I, R) == {x.l : x \in {y \in I : \E i \in R : i.kind = "orphan" /\ i.o = y.o}}

KeysClosed(upd) == \A q \in upd : EntryOf(q[1]) # NoEntry =>
                      \A k \in KeysOfEntry(EntryOf(q[1])) : <<k, "key">> \in upd
\* a single intent is a piece of valid configuration: it does not populate two cases of one choice
OneCasePerChoice(upd) == \A q, r \in upd : (ChoiceOf(q[1]) # NoChoice /\ ChoiceOf(q[1]) = ChoiceOf(r[1]))
                                              => CaseOf(q[1]) = CaseOf(r[1])
DistinctOwners(R) == \A a, b \in R : a.o = b.o => a = b
\* priorities stay pairwise distinct between owners in the resulting store
PrioOK(I, R) == PrioDistinct(NewStore(I, R))

\* ---- the change sent to the device: [upd : set of <<l, v>>, del : set of leaves]
ApplyChange(d, sent) == Overlay(Without(d, sent.del), PairsToFun(sent.upd))

\* ---- C01/C08: admissible device results.
\*  d  : device before,  d2 : device after,  E2 : leaves some intent has ever defined (incl. now),
\*  I2 : intent store after, orph : leaves orphan-deleted by this transaction
TouchedEntries(E) == {EntryOf(l) : l \in E} \ {NoEntry}
\* (a) every effectively defined leaf carries the ruling value
AdmConverged(d2, I2) == \A l \in EffLeaves(I2) : Get(d2, l) = Eff(I2)[l]
\* (b) leaves once defined that no live intent defines any more are gone (orphaned ones may stay)
\* (a presence container nobody sets explicitly any more still exists while an intent defines a leaf below it:
\*  its entry on the device may stay - deleting it would delete the child)
ImpliedPresence(I2, d2, l) == \/ \E x \in LeavesOf(I2) : UPresenceParent[x] = l
                              \/ \E x \in DOMAIN d2 : x \in AllLeaf /\ UPresenceParent[x] = l   \* e.g. a leaf an orphaned intent left behind
AdmNoStale(d, d2, E2, I2, orph) ==
    \A l \in E2 \ LeavesOf(I2) : IF (l \in orph /\ ~Losing(I2, l)) \/ ImpliedPresence(I2, d2, l) THEN Get(d2, l) \in {Get(d, l), "absent"}
                                 ELSE Get(d2, l) = "absent"
\* (b') C08: leaves of a losing case are absent, whoever defines them
AdmOneCase(d2, I2) == \A l \in (DOMAIN d2) \cup LeavesOf(I2) : Losing(I2, l) => Get(d2, l) = "absent"
\* (c) everything outside list entries touched by intents, never defined by an intent, is untouched;
\* (d) never-defined leaves inside touched list entries are unconstrained
AdmUntouched(d, d2, E2) ==
    \A l \in ((DOMAIN d) \cup (DOMAIN d2)) \ E2 :
        (EntryOf(l) \notin TouchedEntries(E2) /\ ChoiceOf(l) = NoChoice) => Get(d2, l) = Get(d, l)
Admissible(d, d2, E2, I2, orph) ==
    /\ AdmConverged(d2, I2)
    /\ AdmNoStale(d, d2, E2, I2, orph)
    /\ AdmOneCase(d2, I2)
    /\ AdmUntouched(d, d2, E2)

\* constructive form used for model checking / generation.  Orphan-deleted leaves stay on the device
\* (what the orphan flag is for); the leaves the property leaves open are chosen by `keep`.
KeptOrphans(d, E2, I2, orph) == {l \in DOMAIN d : l \in E2 /\ l \in orph /\ l \notin LeavesOf(I2) /\ ~Losing(I2, l)}
Flexible(d, E2, I2, orph) ==
    {l \in DOMAIN d : ~Losing(I2, l) /\ l \notin EffLeaves(I2) /\ l \notin E2 /\ EntryOf(l) \in TouchedEntries(E2)}
Constructed(d, E2, I2, orph, keep) ==
    LET ef == Eff(I2)
        base == [l \in DOMAIN d |-> d[l]]
        gone == {l \in DOMAIN d : l \notin DOMAIN ef /\
                    \/ Losing(I2, l)
                    \/ (l \in E2 /\ l \notin KeptOrphans(d, E2, I2, orph))
                    \/ (l \in Flexible(d, E2, I2, orph) /\ l \notin keep)}
    IN Overlay(Without(base, gone), ef)
\* the minimal change that reaches a constructed device state
MinimalChange(d, d2) == [upd |-> {<<l, d2[l]>> : l \in {m \in DOMAIN d2 : Get(d, m) # d2[m]}},
                         del |-> (DOMAIN d) \ (DOMAIN d2)]

\* history of managed leaves after an applied transaction: everything some live or former intent
\* defined, except leaves whose last definer was orphan-deleted and that stayed on the device
\* (they are unmanaged device content from then on)
EverAfter(E, I, R, I2, d2) == (E \cup LeavesOf(I2)) \ {l \in Orphaned(I, R) : l \notin LeavesOf(I2) /\ l \in DOMAIN d2}

\* ---- C04: validity of a configuration (partial function leaf -> datum) for the verification schema.
\* dis: the disabled validator classes.  Only constraint instances whose YANG meaning is not in dispute:
\* leaf-local range / length / pattern / max-elements (table UBad), mandatory child of a presence
\* container, leafref with require-instance to a list key, a must that needs a sibling.
LeafLocalOK(cfg, dis) == \A l \in DOMAIN cfg : \A b \in UBad : (b[1] = l /\ b[2] = cfg[l]) => b[3] \in dis
\* sys/svc/id below the presence container; mitem/req in every entry of the list that exists
MandatoryOK(cfg) == /\ (("s.svc" \in DOMAIN cfg) \/ ("s.svc.note" \in DOMAIN cfg)) => ("s.svc.id" \in DOMAIN cfg)
                    /\ \A e \in {"m1", "m2"} : (\E l \in DOMAIN cfg : EntryOf(l) = e) => (\E l \in DOMAIN cfg : l = e \o ".req")
LeafrefOK(cfg) == ("s.primary" \in DOMAIN cfg) =>
                     \/ (cfg["s.primary"] = "s:$k1" /\ "i1.name" \in DOMAIN cfg)
                     \/ (cfg["s.primary"] = "s:$k2" /\ "i2.name" \in DOMAIN cfg)
\* must statements of the verification schema:
\*   sys/guard    must "../host"              the leaf exists
\*   plain/lcheck must "../lim > -5"          a signed operand (values -7 and 3)
\*   plain/gcheck must "/glob/limit > 1"      a leaf with default 2 below a container that may not be instantiated at all
MustOK(cfg) == /\ ("s.guard" \in DOMAIN cfg) => ("s.host" \in DOMAIN cfg)
               /\ ("pl.lcheck" \in DOMAIN cfg) => ("pl.lim" \in DOMAIN cfg /\ cfg["pl.lim"] = "i:3")
               /\ ("pl.gcheck" \in DOMAIN cfg) => (("g.limit" \in DOMAIN cfg) => cfg["g.limit"] # "u:1")
ValidCfg(cfg, dis) == /\ LeafLocalOK(cfg, dis)
                      /\ ("mandatory" \in dis \/ MandatoryOK(cfg))
                      /\ ("leafref" \in dis \/ LeafrefOK(cfg))
                      /\ ("must" \in dis \/ MustOK(cfg))
\* the configuration that results from a transaction: the merged intents over the untouched device content
\* (orphan-deleted leaves whose last definer left stay on the device as unmanaged content)
ResultOf(I2, d, E, orph) ==
    LET kept == {l \in DOMAIN d : l \in orph /\ l \notin LeavesOf(I2)}
    IN Overlay(Without(d, (LeavesOf(I2) \cup E) \ kept), Eff(I2))

\* ---- cache Modify model (sdcio/cache as used): intended entries are keyed by (owner, priority, path)
\* m = [o, p, del : set of leaves, upd : set of <<l, v>>]; deletes first, then writes
IntendedAfterMod(I, m) ==
    LET I1 == {x \in I : ~(x.o = m.o /\ x.p = m.p /\ x.l \in m.del)}
        I2 == {x \in I1 : ~(x.o = m.o /\ x.p = m.p /\ x.l \in {q[1] : q \in m.upd})}
    IN I2 \cup {Entry(m.o, m.p, q[1], q[2]) : q \in m.upd}
RunningAfterMod(r, m) == Overlay(Without(r, m.del), PairsToFun(m.upd))

\* ---- transaction snapshot and rollback target (C05)
\* snap: for every owner named by the request its content before the transaction
SnapOf(I, R) == {[o |-> o, old |-> OfOwner(I, o)] : o \in ReqOwners(R)}
RestoredStore(I, snap) == {x \in I : x.o \notin {s.o : s \in snap}} \cup UNION {s.old : s \in snap}
\* the leaves a transaction touched: old and new content of its intents
TouchedLeaves(snap, R) == UNION {LeavesOf(s.old) : s \in snap} \cup UNION {{q[1] : q \in i.upd} : i \in R}
=============================================================================
