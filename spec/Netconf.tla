------------------------------ MODULE Netconf ------------------------------
(***************************************************************************)
(* ncTarget.Set (pkg/datastore/target/nc.go) against a NETCONF device:     *)
(* the session protocol with fault outcomes at every driver call.          *)
(* Driver contract (scrapligo adapter): rpc-errors surface as "error";     *)
(* "eof" is an error of a dead connection (no further call is possible).   *)
(*   candidate: edit-config(candidate) -> commit; on a failure of either   *)
(*              the candidate is discarded before the error is returned    *)
(*   running:   edit-config(running)                                       *)
(*   nothing is sent when the change document is empty                     *)
(***************************************************************************)
EXTENDS Integers, Sequences, FiniteSets, TLC

CONSTANTS CommitDS,   \* "candidate" | "running"
          Doc         \* "empty" | "nonempty"

EditOutcome == {"ok", "warning", "error", "eof"}
CallOutcome == {"ok", "error", "eof"}

VARIABLES pc,         \* "start", "edited", "failed" (needs discard), "done"
          running,    \* number of changes in running
          candidate,  \* number of (uncommitted + committed) changes in the candidate
          alive, calls, ret, plan
vars == <<pc, running, candidate, alive, calls, ret, plan>>

Call(op, tgt, out) == calls' = Append(calls, [op |-> op, target |-> tgt, outcome |-> out])
Plan(out) == plan' = Append(plan, out)

Init == pc = "start" /\ running = 0 /\ candidate = 0 /\ alive = TRUE /\ calls = <<>> /\ ret = "-" /\ plan = <<>>

Empty == /\ pc = "start" /\ Doc = "empty"
         /\ pc' = "done" /\ ret' = "ok" /\ UNCHANGED <<running, candidate, alive, calls, plan>>

EditRunning(out) ==
    /\ pc = "start" /\ Doc = "nonempty" /\ CommitDS = "running"
    /\ Call("edit-config", "running", out) /\ Plan(out)
    /\ running' = (IF out \in {"ok", "warning"} THEN running + 1 ELSE running)
    /\ alive' = (out # "eof")
    /\ ret' = (IF out \in {"ok", "warning"} THEN "ok" ELSE "error") /\ pc' = "done"
    /\ UNCHANGED candidate

EditCandidate(out) ==
    /\ pc = "start" /\ Doc = "nonempty" /\ CommitDS = "candidate"
    /\ Call("edit-config", "candidate", out) /\ Plan(out)
    /\ alive' = (out # "eof")
    /\ CASE out \in {"ok", "warning"} -> candidate' = candidate + 1 /\ pc' = "edited" /\ ret' = ret
         [] out = "error" -> candidate' \in {candidate, candidate + 1} /\ pc' = "failed" /\ ret' = ret   \* may be partly applied
         [] out = "eof" -> candidate' = candidate /\ pc' = "done" /\ ret' = "error"
    /\ UNCHANGED running

Commit(out) ==
    /\ pc = "edited"
    /\ Call("commit", "-", out) /\ Plan(out)
    /\ alive' = (out # "eof")
    /\ CASE out = "ok" -> running' = candidate /\ pc' = "done" /\ ret' = "ok"
         [] out = "error" -> running' = running /\ pc' = "failed" /\ ret' = ret
         [] out = "eof" -> running' = running /\ pc' = "done" /\ ret' = "error"
    /\ UNCHANGED candidate

Discard(out) ==
    /\ pc = "failed"
    /\ Call("discard", "-", out) /\ Plan(out)
    /\ alive' = (out # "eof")
    /\ candidate' = (IF out = "ok" THEN running ELSE candidate)
    /\ pc' = "done" /\ ret' = "error"
    /\ UNCHANGED running

Next == Empty \/ (\E o \in EditOutcome : EditRunning(o) \/ EditCandidate(o)) \/ (\E o \in CallOutcome : Commit(o) \/ Discard(o))
Spec == Init /\ [][Next]_vars

Done == pc = "done"
Ops == [i \in 1..Len(calls) |-> calls[i].op]
\* C18
SuccessShape == (Done /\ ret = "ok" /\ Doc = "nonempty") =>
                   Ops = (IF CommitDS = "candidate" THEN <<"edit-config", "commit">> ELSE <<"edit-config">>)
EmptyNoCalls == (Done /\ Doc = "empty") => (calls = <<>> /\ ret = "ok")
ExactlyOneEdit == (Done /\ Doc = "nonempty") => Cardinality({i \in 1..Len(calls) : calls[i].op = "edit-config"}) = 1
\* no uncommitted leftovers: after an error on a live session whose discard worked the candidate equals running
NoLeftovers == (Done /\ ret = "error" /\ alive /\ CommitDS = "candidate" /\ Len(calls) > 0 /\ calls[Len(calls)].outcome = "ok") => candidate = running
DiscardAfterFailure == (Done /\ ret = "error" /\ CommitDS = "candidate" /\ \E i \in 1..Len(calls) : calls[i].outcome = "error" /\ calls[i].op # "discard")
                          => calls[Len(calls)].op = "discard"
CommittedOnce == Cardinality({i \in 1..Len(calls) : calls[i].op = "commit"}) <= 1
=============================================================================
