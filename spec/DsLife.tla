------------------------------- MODULE DsLife -------------------------------
(***************************************************************************)
(* Life cycle of ONE datastore name in the server registry                 *)
(* (pkg/server/datastore.go CreateDataStore / DeleteDataStore,             *)
(*  pkg/datastore Datastore.New / Stop / DeleteCache) together with the    *)
(* rollback timer of an unconfirmed transaction                            *)
(* (types.Transaction.rollback -> TransactionManager.RollbackExpired).     *)
(*                                                                         *)
(* Not one of the listed properties: growth of the specification beyond    *)
(* them (DESIGN 12.16).  An incarnation is one *Datastore object; the      *)
(* cache instance and the device are shared by name between incarnations.  *)
(*                                                                         *)
(* StopResolves = FALSE is the code as it is: Datastore.Stop cancels the   *)
(* datastore context and closes the target, the timer goroutine of an      *)
(* open transaction is not tied to either (it runs on                      *)
(* context.Background()).  StopResolves = TRUE is the candidate protocol:  *)
(* Stop resolves the open transaction (stops its timer).                   *)
(***************************************************************************)
EXTENDS Integers, FiniteSets, Sequences, TLC

CONSTANTS MaxInc,        \* incarnations created at most
          Vals,          \* values of the one leaf an intent sets
          StopResolves,
          Refuses        \* subset of BOOLEAN: does a closed target connection refuse Set (gNMI, NETCONF: yes; noop: no)

None == "none"
Incs == 1..MaxInc

VARIABLES live,      \* the registered incarnation or 0
          next,      \* incarnations created so far
          cache,     \* None (no cache instance of that name) or the intent value stored ("-" = no intent)
          device,    \* value of the leaf on the device ("-" = absent)
          open,      \* per incarnation: None or the value to put back on rollback
          timer,     \* per incarnation: "off", "armed"
          ghost,     \* history: an incarnation that is not registered wrote to the device or the cache
          refuse     \* closed target connections refuse Set (fixed per behaviour)
vars == <<live, next, cache, device, open, timer, ghost, refuse>>

Init == /\ live = 0 /\ next = 0 /\ cache = None /\ device = "-"
        /\ open = [i \in Incs |-> None] /\ timer = [i \in Incs |-> "off"] /\ ghost = {}
        /\ refuse \in Refuses

Create == /\ live = 0 /\ next < MaxInc
          /\ next' = next + 1 /\ live' = next + 1
          /\ cache' = (IF cache = None THEN "-" ELSE cache)        \* cache instance is created if missing
          /\ UNCHANGED <<device, open, timer, ghost, refuse>>

\* TransactionSet of one intent on the registered incarnation, applied and left unconfirmed
Set(v) == /\ live # 0 /\ open[live] = None /\ cache # None
          /\ open' = [open EXCEPT ![live] = cache]
          /\ timer' = [timer EXCEPT ![live] = "armed"]
          /\ cache' = v /\ device' = v
          /\ UNCHANGED <<live, next, ghost, refuse>>

Confirm == /\ live # 0 /\ open[live] # None
           /\ open' = [open EXCEPT ![live] = None] /\ timer' = [timer EXCEPT ![live] = "off"]
           /\ UNCHANGED <<live, next, cache, device, ghost, refuse>>

\* the rollback transaction sets the owner's intent to its former content against the cache of that NAME as it is
\* now: nothing to take back when the former content was empty and the cache holds no such intent (or is gone)
Rollback(i) == /\ IF open[i] = "-"
                  THEN IF cache \in {None, "-"} THEN UNCHANGED <<device, cache>>
                       ELSE device' = "-" /\ cache' = "-"
                  ELSE device' = open[i] /\ cache' = (IF cache = None THEN None ELSE open[i])
               /\ open' = [open EXCEPT ![i] = None] /\ timer' = [timer EXCEPT ![i] = "off"]

Cancel == /\ live # 0 /\ open[live] # None /\ Rollback(live)
          /\ UNCHANGED <<live, next, ghost, refuse>>

\* Server.DeleteDataStore: Stop, DeleteCache, unregister
Delete == /\ live # 0
          /\ live' = 0 /\ cache' = None
          /\ IF StopResolves
             THEN open' = [open EXCEPT ![live] = None] /\ timer' = [timer EXCEPT ![live] = "off"]
             ELSE UNCHANGED <<open, timer>>
          /\ UNCHANGED <<next, device, ghost, refuse>>

\* the rollback timer of incarnation i fires: RollbackExpired acts when its transaction is still the open one
\* (the device is written first, the stores afterwards: a refused device call ends the rollback, the transaction
\*  is forgotten all the same)
TimerFire(i) == /\ timer[i] = "armed" /\ open[i] # None
                /\ IF i # live /\ refuse
                   THEN /\ open' = [open EXCEPT ![i] = None] /\ timer' = [timer EXCEPT ![i] = "off"]
                        /\ UNCHANGED <<device, cache, ghost>>
                   ELSE /\ Rollback(i)
                        /\ ghost' = (IF i # live /\ (device' # device \/ cache' # cache) THEN ghost \cup {i} ELSE ghost)
                /\ UNCHANGED <<live, next, refuse>>

Next == Create \/ Delete \/ Confirm \/ Cancel \/ (\E v \in Vals : Set(v)) \/ (\E i \in Incs : TimerFire(i))
Spec == Init /\ [][Next]_vars

TypeOK == /\ live \in 0..MaxInc /\ next \in 0..MaxInc
          /\ cache \in {None, "-"} \cup Vals /\ device \in {"-"} \cup Vals
\* a deleted datastore never acts again: neither on the device nor on the cache of its name
DeletedIsSilent == ghost = {}
\* a re-created datastore starts from an empty store and only holds what was set on it
ArmedOnlyWhileRegistered == \A i \in Incs : timer[i] = "armed" => i = live
=============================================================================
