SPECIFICATION GSpec
CONSTANTS MaxInc = 2  Vals = {"a", "b"}  Refuses = {FALSE}  StopResolves = FALSE  Depth = 6
INVARIANT Emit
CHECK_DEADLOCK FALSE
