----------------------------- MODULE IntentsGen -----------------------------
(* Behaviour generation: Intents plus a history variable of INPUTS only.  Run with       *)
(* tlc -simulate; the invariant Emit writes the inputs of every simulated behaviour as    *)
(* JSON (one file per behaviour) for replay against the real code.                       *)
EXTENDS MCIntents, Json, IOUtils, Randomization

VARIABLE hist
gvars == <<vars, hist>>
OutDir == IOEnv.VERIF_GEN_DIR
MaxSteps == atoi(IOEnv.VERIF_GEN_STEPS)

In(x) == hist' = [hist EXCEPT !.steps = Append(@, x)]
Room == Len(hist.steps) < MaxSteps

\* sampled request space: a few random intents per state (the full product is too large to enumerate)
\* biased towards the cases the properties name: verbatim resubmission, re-prioritisation, shrinking, deletion
StoredOwners == OwnersOf(intended)
PrioIn(o) == (CHOOSE x \in intended : x.o = o).p
ContentOf(o) == {<<x.l, x.v>> : x \in OfOwner(intended, o)}
Verbatim == {[o |-> o, p |-> PrioIn(o), kind |-> "set", upd |-> ContentOf(o)] : o \in StoredOwners}
Reprio == {[o |-> o, p |-> p, kind |-> "set", upd |-> ContentOf(o)] : o \in StoredOwners, p \in Prio} \ Verbatim
ReprioOK == {i \in Reprio : i.p \in PrioOf[i.o]}
Shrunk == {i \in {[o |-> o, p |-> PrioIn(o), kind |-> "set", upd |-> {q \in ContentOf(o) : q[1] # d}] :
                     o \in StoredOwners, d \in NonKey} : i.upd # {} /\ KeysClosed(i.upd)} \ Verbatim
Dels == {i \in IntentDel : i.o \in StoredOwners}
SampleIntents == RandomSubset(4, IntentSet) \cup RandomSubset(1, Verbatim) \cup RandomSubset(1, ReprioOK)
                 \cup RandomSubset(1, Shrunk) \cup RandomSubset(2, Dels)
\* VERIF_GEN_BIAS = "verbatim": most requests re-submit stored intents exactly as they are (C09), alone or in pairs
Bias == IOEnv.VERIF_GEN_BIAS
\* VERIF_GEN_BIAS = "takeover": most requests remove two intents at once that both define a leaf a third intent
\* defines too (who takes over when the two best leave together?)
Shared3 == {x.l : x \in {y \in intended : Cardinality({z.o : z \in {w \in intended : w.l = y.l}}) >= 3}}
TakeoverReqs == {{d1, d2} : d1 \in Dels, d2 \in Dels} \cap
                {R \in SUBSET Dels : Cardinality(R) = 2 /\ \E l \in Shared3 : \A d \in R : \E x \in intended : x.o = d.o /\ x.l = l}
\* (until three intents are stored the requests add the missing owners, without dry runs, cancels and waits)
Stacking == Bias \in {"takeover", "stack"}   \* "stack": three owners first, then single-intent changes
NewOwnerSets == {x \in IntentSet : x.kind = "set" /\ x.o \notin StoredOwners}
ReqSample == IF Bias = "takeover" /\ TakeoverReqs # {}
             THEN TakeoverReqs \cup {{i} : i \in RandomSubset(1, IntentSet)}
             ELSE IF Stacking /\ NewOwnerSets # {}
             THEN {{i} : i \in RandomSubset(3, NewOwnerSets)}
             ELSE IF Bias = "stack"
             THEN {{i} : i \in SampleIntents}
             ELSE IF Bias = "verbatim" /\ Verbatim # {}
             THEN {{i} : i \in Verbatim} \cup {{i, j} : i \in Verbatim, j \in Verbatim} \cup {{i} : i \in RandomSubset(2, IntentSet)}
             ELSE LET S == SampleIntents IN {{i} : i \in S} \cup {{i, j} : i \in S, j \in S}

GInit == Init /\ hist = [init |-> FunToPairs(device), steps |-> <<>>]

GNext ==
    \/ /\ Room
       /\ \/ \E id \in TxnId, R \in ReqSample, d \in (IF Stacking THEN {FALSE} ELSE BOOLEAN), f \in FailKinds, t \in TmoKinds :
               TxBegin(id, R, d, f, t) /\ In([op |-> "txset", id |-> id, dry |-> d, intents |-> R, devfail |-> (f = "device"), tmoc |-> t,
                                                 rescfg |-> FunToPairs(ResultCfg(NewStore(intended, R), device, R))])
          \/ \E id \in TxnId, R \in {{i} : i \in RandomSubset(1, IntentSet)} :
               /\ ~Stacking
               /\ GoodRequest(R) /\ TxRefused(id)
               /\ In([op |-> "txset", id |-> id, dry |-> FALSE, intents |-> R, devfail |-> FALSE, tmoc |-> "long"])
          \/ \E id \in TxnId : Confirm(id) /\ In([op |-> "confirm", id |-> id])
          \/ \E id \in TxnId : ~Stacking /\ Cancel(id) /\ In([op |-> "cancel", id |-> id])
          \/ ~Stacking /\ Wait /\ In([op |-> "wait"])
    \/ /\ (TxReject \/ TxDryRun \/ TxApply \/ TxApplyFail \/ (\E o \in Owner : TxPersistIntent(o))
           \/ TxPersistRunning \/ TxArm \/ EnvSync)
       /\ UNCHANGED hist

GSpec == GInit /\ [][GNext]_gvars

\* a tail for the behaviour: a TransactionSet with a replace intent (no other intents) and how it is resolved;
\* the design model stops before it (a replace intent deliberately decouples the device from the intents),
\* IntentsTrace.TxReplace judges it
ReplTail(dummy) == LET i == RandomElement({x \in IntentSet : x.kind = "set"}) IN
                   [upd |-> i.upd, dry |-> RandomElement(BOOLEAN), end |-> RandomElement({"confirm", "cancel", "wait", "none"}),
                    \* sometimes an ordinary intent travels with the replace intent
                    extra |-> IF RandomElement(1..4) = 1 THEN {RandomElement(IntentSet)} ELSE {}]
Emit == (Idle /\ Len(hist.steps) > 0) =>
           JsonSerialize(OutDir \o "/b" \o ToString(TLCGet("stats").traces) \o ".json",
                         [init |-> hist.init, steps |-> hist.steps, answers |-> answers, repltail |-> ReplTail(0)])
=============================================================================
