SPECIFICATION Spec
CONSTANTS
  Val <- MCVal
  Slot <- MCSlot
  Needs <- MCNeeds
  Observes <- NoObserves
  Atomic = TRUE
  Order <- MCOrder
INVARIANTS SameVerdicts NoLostInsert
PROPERTY Terminates
CHECK_DEADLOCK FALSE
