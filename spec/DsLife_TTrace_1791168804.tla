---- MODULE DsLife_TTrace_1791168804 ----
EXTENDS Sequences, TLCExt, Toolbox, DsLife, Naturals, TLC

_expression ==
    LET DsLife_TEExpression == INSTANCE DsLife_TEExpression
    IN DsLife_TEExpression!expression
----

_trace ==
    LET DsLife_TETrace == INSTANCE DsLife_TETrace
    IN DsLife_TETrace!trace
----

_inv ==
    ~(
        TLCGet("level") = Len(_TETrace)
        /\
        next = (1)
        /\
        timer = (<<"off", "off">>)
        /\
        cache = ("none")
        /\
        ghost = ({1})
        /\
        device = ("-")
        /\
        live = (0)
        /\
        open = (<<"none", "none">>)
    )
----

_init ==
    /\ live = _TETrace[1].live
    /\ device = _TETrace[1].device
    /\ next = _TETrace[1].next
    /\ ghost = _TETrace[1].ghost
    /\ timer = _TETrace[1].timer
    /\ open = _TETrace[1].open
    /\ cache = _TETrace[1].cache
----

_next ==
    /\ \E i,j \in DOMAIN _TETrace:
        /\ \/ /\ j = i + 1
              /\ i = TLCGet("level")
        /\ live  = _TETrace[i].live
        /\ live' = _TETrace[j].live
        /\ device  = _TETrace[i].device
        /\ device' = _TETrace[j].device
        /\ next  = _TETrace[i].next
        /\ next' = _TETrace[j].next
        /\ ghost  = _TETrace[i].ghost
        /\ ghost' = _TETrace[j].ghost
        /\ timer  = _TETrace[i].timer
        /\ timer' = _TETrace[j].timer
        /\ open  = _TETrace[i].open
        /\ open' = _TETrace[j].open
        /\ cache  = _TETrace[i].cache
        /\ cache' = _TETrace[j].cache

\* Uncomment the ASSUME below to write the states of the error trace
\* to the given file in Json format. Note that you can pass any tuple
\* to `JsonSerialize`. For example, a sub-sequence of _TETrace.
    \* ASSUME
    \*     LET J == INSTANCE Json
    \*         IN J!JsonSerialize("DsLife_TTrace_1791168804.json", _TETrace)

=============================================================================

 Note that you can extract this module `DsLife_TEExpression`
  to a dedicated file to reuse `expression` (the module in the 
  dedicated `DsLife_TEExpression.tla` file takes precedence 
  over the module `DsLife_TEExpression` below).

---- MODULE DsLife_TEExpression ----
EXTENDS Sequences, TLCExt, Toolbox, DsLife, Naturals, TLC

expression == 
    [
        \* To hide variables of the `DsLife` spec from the error trace,
        \* remove the variables below.  The trace will be written in the order
        \* of the fields of this record.
        live |-> live
        ,device |-> device
        ,next |-> next
        ,ghost |-> ghost
        ,timer |-> timer
        ,open |-> open
        ,cache |-> cache
        
        \* Put additional constant-, state-, and action-level expressions here:
        \* ,_stateNumber |-> _TEPosition
        \* ,_liveUnchanged |-> live = live'
        
        \* Format the `live` variable as Json value.
        \* ,_liveJson |->
        \*     LET J == INSTANCE Json
        \*     IN J!ToJson(live)
        
        \* Lastly, you may build expressions over arbitrary sets of states by
        \* leveraging the _TETrace operator.  For example, this is how to
        \* count the number of times a spec variable changed up to the current
        \* state in the trace.
        \* ,_liveModCount |->
        \*     LET F[s \in DOMAIN _TETrace] ==
        \*         IF s = 1 THEN 0
        \*         ELSE IF _TETrace[s].live # _TETrace[s-1].live
        \*             THEN 1 + F[s-1] ELSE F[s-1]
        \*     IN F[_TEPosition - 1]
    ]

=============================================================================



Parsing and semantic processing can take forever if the trace below is long.
 In this case, it is advised to uncomment the module below to deserialize the
 trace from a generated binary file.

\*
\*---- MODULE DsLife_TETrace ----
\*EXTENDS IOUtils, DsLife, TLC
\*
\*trace == IODeserialize("DsLife_TTrace_1791168804.bin", TRUE)
\*
\*=============================================================================
\*

---- MODULE DsLife_TETrace ----
EXTENDS DsLife, TLC

trace == 
    <<
    ([next |-> 0,timer |-> <<"off", "off">>,cache |-> "none",ghost |-> {},device |-> "-",live |-> 0,open |-> <<"none", "none">>]),
    ([next |-> 1,timer |-> <<"off", "off">>,cache |-> "-",ghost |-> {},device |-> "-",live |-> 1,open |-> <<"none", "none">>]),
    ([next |-> 1,timer |-> <<"armed", "off">>,cache |-> "a",ghost |-> {},device |-> "a",live |-> 1,open |-> <<"-", "none">>]),
    ([next |-> 1,timer |-> <<"armed", "off">>,cache |-> "none",ghost |-> {},device |-> "a",live |-> 0,open |-> <<"-", "none">>]),
    ([next |-> 1,timer |-> <<"off", "off">>,cache |-> "none",ghost |-> {1},device |-> "-",live |-> 0,open |-> <<"none", "none">>])
    >>
----


=============================================================================

---- CONFIG DsLife_TTrace_1791168804 ----
CONSTANTS
    MaxInc = 2
    Vals = { "a" , "b" }
    StopResolves = FALSE

INVARIANT
    _inv

CHECK_DEADLOCK
    \* CHECK_DEADLOCK off because of PROPERTY or INVARIANT above.
    FALSE

INIT
    _init

NEXT
    _next

CONSTANT
    _TETrace <- _trace

ALIAS
    _expression
=============================================================================
\* Generated on Mon Oct 05 02:53:25 UTC 2026