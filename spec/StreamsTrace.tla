---------------------------- MODULE StreamsTrace ----------------------------
(* Validation of the real streaming handlers (Datastore.Subscribe, Datastore.Get with a forwarding consumer)  *)
(* under the fault scenarios of Streams.tla: the handler returns within bounded time after the client is gone *)
(* or a send failed (the model's EndsWhenClientDoes), all its goroutines end, nothing panics.                 *)
EXTENDS Integers, Sequences, FiniteSets, TLC, Json, IOUtils, SequencesExt
TraceFile == IOEnv.VERIF_TRACE
OutFile == IOEnv.VERIF_OUT
Trace == ndJsonDeserialize(TraceFile)
VARIABLES l, bad, nt
tvars == <<l, bad, nt>>
Bound == 1000   \* ms
Clauses(e) ==
  IF e.panic THEN {<<"C19", "NoPanic", FALSE>>} ELSE
  {<<"C19", "EndsWhenClientDoes", e.returned /\ e.afterms <= Bound>>,
   <<"C19", "GoroutinesReleased", e.gdelta <= 0>>}
Init == l = 1 /\ bad = {} /\ nt = [runs |-> 0, multi |-> 0]
Failed(cs, line) == {<<c[1], c[2], line>> : c \in {x \in cs : ~x[3]}}
Step == /\ l <= Len(Trace)
        /\ LET e == Trace[l] IN
             /\ bad' = bad \cup Failed(Clauses(e), l)
             /\ nt' = [runs |-> nt.runs + 1, multi |-> nt.multi + (IF e.nsubs >= 2 /\ Len(e.faults) >= 1 /\ e.faults[1] # "exhaust" THEN 1 ELSE 0)]
        /\ l' = l + 1
Finish == /\ l = Len(Trace) + 1
          /\ JsonSerialize(OutFile, [consumed |-> l - 1, total |-> Len(Trace), bad |-> SetToSeq(bad), nt |-> nt])
          /\ l' = l + 1 /\ UNCHANGED <<bad, nt>>
Next == Step \/ Finish
Spec == Init /\ [][Next]_tvars
Accepted == TLCGet("stats").diameter = Len(Trace) + 2
=============================================================================
