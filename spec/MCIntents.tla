----------------------------- MODULE MCIntents -----------------------------
(* Model-checking instances of Intents: constant definitions per configuration. *)
EXTENDS Intents

Empty == [l \in {} |-> "x"]
\* core: one keyed entry (key + 1 leaf), two plain leaves; device may start with unmanaged content
CoreLeaf == {"i1.name", "i1.val", "pl.a"}
CorePrioOf == [o \in {"A", "B"} |-> IF o = "A" THEN {5, 10} ELSE {7}]
CoreInit == {Empty,
             [l \in {"pl.s"} |-> "s:b"],
             [l \in {"i1.name", "i1.y_val", "pl.a"} |-> IF l = "i1.name" THEN "key" ELSE "s:b"]}
\* choice: one two-case choice (one member each... b has two), a non member with a prefix related name, one plain leaf
ChoiceLeaf == {"c.x", "c.y", "c.z"}
ChoiceInit == {Empty, [l \in {"c.z"} |-> "s:b"]}
FaultLeaf == {"pl.a", "pl.s"}
FaultInit == {Empty, [l \in {"pl.a"} |-> "s:b"]}
FaultInitQ == {Empty}
FaultLeafQ == {"pl.a"}
FaultPrioOf == [o \in {"A", "B"} |-> IF o = "A" THEN {5} ELSE {7}]
\* validity: constraint carrying leaves (must, mandatory under presence, length/pattern), bad values allowed
ValidLeaf == {"s.host", "s.guard", "s.svc", "s.svc.id"}
ValidInit == {Empty, [l \in {"s.host"} |-> "s:abc"]}
\* generation (simulation) universes: wider than the exhaustive ones
GenPrioOf == [o \in {"A", "B", "C"} |-> CASE o = "A" -> {5, 10} [] o = "B" -> {7, 12} [] o = "C" -> {8}]
GenCoreLeaf == Fam_core
GenCoreInit == {Empty,
                [l \in {"pl.s"} |-> "s:b"],
                [l \in {"i1.name", "i1.y_val", "pl.ab"} |-> IF l = "i1.name" THEN "key" ELSE "s:b"],
                [l \in {"i2.name", "i2.val", "pl.a"} |-> IF l = "i2.name" THEN "key" ELSE "s:a"]}
GenChoiceLeaf == {"c.x", "c.y", "c.be", "c.z", "pl.a", "pl.ab"}
GenChoiceInit == {Empty, [l \in {"c.z", "pl.s"} |-> "s:b"]}
\* lifecycle family: small data universe, all Set outcomes, both timeout classes
GenLifeLeaf == {"pl.a", "pl.ab", "i1.name", "i1.val"}
GenLifeInit == {Empty, [l \in {"pl.s"} |-> "s:b"]}
GenCrossLeaf == Fam_cross
GenCrossInit == {Empty, [l \in {"s.host"} |-> "s:abc"], [l \in {"s.hostname", "pl.n"} |-> IF l = "pl.n" THEN "u:1" ELSE "s:a"]}
GenPresLeaf == Fam_pres
GenPresInit == {Empty, [l \in {"pl.s"} |-> "s:b"]}
GenNsLeaf == {"i1.name", "i1.val", "i1.xval", "s.ext", "s.xc.inner", "s.hostname", "pl.a", "s.tags", "s.xtags"}
GenNsInit == {Empty, [l \in {"s.host"} |-> "s:abc"]}
\* multi-key lists (keys declared non-alphabetically) next to a single-key list and a plain leaf
GenMkeyLeaf == {"p1.zone", "p1.app", "p1.weight", "p2.zone", "p2.app", "p2.weight", "pl.a"}
GenMkeyInit == {Empty, [l \in {"pl.s"} |-> "s:b"]}
GenMustxLeaf == {"pl.lim", "pl.lcheck", "pl.gcheck", "g.limit", "pl.ml"}
GenMustxInit == {Empty, [l \in {"pl.s"} |-> "s:b"]}
\* few leaves, three owners: the same leaf is held by two or three intents most of the time
\* leaves with a schema default next to siblings held by other intents
GenDfltLeaf == {"s.desc", "s.hostname", "s.feat", "s.feat.level", "s.host", "i1.name", "i1.mode", "i1.val"}
GenDfltInit == {Empty, [l \in {"pl.s"} |-> "s:b"]}
\* mandatory leaf in list entries, string restrictions on a leaf-list (bad values allowed)
GenMandLeaf == Fam_mand \cup {"pl.a"}
GenMandInit == {Empty, [l \in {"pl.s"} |-> "s:b"]}
GenDenseLeaf == {"pl.a", "pl.ab"}
GenDenseInit == {Empty, [l \in {"pl.s"} |-> "s:b"]}
\* a case member that is a container populated by several intents on different paths, against a competing case
GenChoice2Leaf == {"c.x", "c.y", "c.y2", "cp1.name", "cp1.w", "cp2.name", "cp2.w"}
GenChoice2Init == {Empty}
GenValidLeaf == Fam_valid
GenValidInit == {Empty, [l \in {"s.host", "pl.n"} |-> IF l = "s.host" THEN "s:abc" ELSE "u:1"],
                 [l \in {"i2.name", "s.hostname"} |-> IF l = "i2.name" THEN "key" ELSE "s:a"]}
=============================================================================
