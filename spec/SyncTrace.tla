------------------------------ MODULE SyncTrace ------------------------------
(* Trace validation of the real sync path (Datastore.Sync / storeSyncMsg) against SyncSem: the linearised  *)
(* cache calls (CreatePruneID, ApplyPrune, one Modify per delete / update) drive the cache model; at        *)
(* quiescence the observed stores must equal the model (CacheModel) and what the device last reported (C13).*)
EXTENDS SyncSem, Json, IOUtils, SequencesExt

TraceFile == IOEnv.VERIF_TRACE
OutFile == IOEnv.VERIF_OUT
Trace == ndJsonDeserialize(TraceFile)
VARIABLES l, cfg, st, idx, stream, bad, nt
tvars == <<l, cfg, st, idx, stream, bad, nt>>
SeqRange(s) == {s[i] : i \in 1..Len(s)}
Pairs(s) == {<<q[1], q[2]>> : q \in SeqRange(s)}
MsgOf(m) == IF m.kind = "notif" THEN [kind |-> "notif", del |-> SeqRange(m.del), upd |-> Pairs(m.upd)] ELSE [kind |-> m.kind]
StreamOf(e) == [i \in 1..Len(e.msgs) |-> MsgOf(e.msgs[i])]
ObsFun(s) == PairsToFun(Pairs(s))

Init == l = 1 /\ cfg = <<>> /\ st = <<>> /\ idx = 0 /\ stream = <<>> /\ bad = {} /\ nt = [scripts |-> 0, overlap |-> 0, prefixdel |-> 0]
Failed(cs, line) == {<<c[1], c[2], line>> : c \in {x \in cs : ~x[3]}}

\* a delete of a node while a prefix related sibling is stored
PrefixRelated == {<<"item[k1]", "i2.name">>, <<"item[k1]", "i2.val">>, <<"plain/a", "pl.ab">>, <<"sys/host", "s.hostname">>, <<"ch/alpha", "c.z">>, <<"item[k1]/val", "i1.val">>}

Step ==
  /\ l <= Len(Trace)
  /\ LET e == Trace[l] IN
       CASE e.ev = "script" ->
              /\ cfg' = <<>> /\ st' = <<>> /\ idx' = 0 /\ stream' = StreamOf(e)
              /\ nt' = [nt EXCEPT !.scripts = @ + 1] /\ bad' = bad
         [] e.ev = "prune_create" -> idx' = idx + 1 /\ UNCHANGED <<cfg, st, stream, bad, nt>>
         [] e.ev = "prune_apply" -> cfg' = CachePrune(cfg, idx) /\ st' = CachePrune(st, idx) /\ UNCHANGED <<idx, stream, bad, nt>>
         [] e.ev = "modify" ->
              /\ IF e.store = "config"
                 THEN cfg' = CacheWrite(CacheDelete(cfg, SeqRange(e.del)), Pairs(e.upd), idx) /\ st' = st
                 ELSE st' = CacheWrite(CacheDelete(st, SeqRange(e.del)), Pairs(e.upd), idx) /\ cfg' = cfg
              /\ nt' = [nt EXCEPT !.prefixdel = @ + (IF \E d \in SeqRange(e.del), k \in DOMAIN cfg : <<d, k>> \in PrefixRelated THEN 1 ELSE 0)]
              /\ UNCHANGED <<idx, stream, bad>>
         [] e.ev = "quiescent" ->
              /\ bad' = bad \cup Failed(
                    {<<"C13", "MirrorConfig", ObsFun(e.config) = ConfigPart(Reported(stream), e.validate)>>,
                     <<"C13", "MirrorState", ObsFun(e.state) = StatePart(Reported(stream), e.validate)>>,
                     <<"M", "CacheModelConfig", ObsFun(e.config) = Values(cfg)>>,
                     <<"M", "CacheModelState", ObsFun(e.state) = Values(st)>>}, l)
              /\ UNCHANGED <<cfg, st, idx, stream, nt>>
  /\ l' = l + 1
Finish == /\ l = Len(Trace) + 1
          /\ JsonSerialize(OutFile, [consumed |-> l - 1, total |-> Len(Trace), bad |-> SetToSeq(bad), nt |-> nt])
          /\ l' = l + 1 /\ UNCHANGED <<cfg, st, idx, stream, bad, nt>>
Next == Step \/ Finish
Spec == Init /\ [][Next]_tvars
Accepted == TLCGet("stats").diameter = Len(Trace) + 2
=============================================================================
