-------------------------------- MODULE Sync --------------------------------
(***************************************************************************)
(* Datastore.Sync (pkg/datastore/datastore_rpc.go): the main loop takes    *)
(* the device's messages in order; start -> CreatePruneID, end ->          *)
(* ApplyPrune, a notification -> acquire one of W semaphore permits and    *)
(* spawn storeSyncMsg, which writes the deletes, then the updates, one     *)
(* cache Modify each (updates in no particular order).                     *)
(* Barrier = TRUE models the repaired loop: start and end first wait for   *)
(* all in-flight writers (they acquire all W permits).                     *)
(***************************************************************************)
EXTENDS SyncSem

CONSTANTS Stream,    \* the device's message sequence
          W,         \* write workers
          Validate,  \* sync validation (state leaves to the state store)
          Barrier    \* BOOLEAN

VARIABLES pos,       \* messages consumed by the main loop
          workers,   \* in-flight writers: set of [n, del : seq of nodes, upd : set of <<l, v>>]
          cfg, st,   \* cache: config and state stores (leaf -> [v, tag])
          idx,       \* current prune index
          pruning    \* a prune id is open
vars == <<pos, workers, cfg, st, idx, pruning>>

Init == pos = 0 /\ workers = {} /\ cfg = <<>> /\ st = <<>> /\ idx = 0 /\ pruning = FALSE

Msg == Stream[pos + 1]
IsState(l) == Validate /\ l \in UStateLeaf

RecvStart == /\ pos < Len(Stream) /\ Msg.kind = "start"
             /\ (Barrier => workers = {})
             /\ idx' = idx + 1 /\ pruning' = TRUE /\ pos' = pos + 1
             /\ UNCHANGED <<workers, cfg, st>>
RecvEnd == /\ pos < Len(Stream) /\ Msg.kind = "end"
           /\ (Barrier => workers = {})
           /\ IF pruning THEN cfg' = CachePrune(cfg, idx) /\ st' = CachePrune(st, idx) /\ pruning' = FALSE
              ELSE UNCHANGED <<cfg, st, pruning>>
           /\ pos' = pos + 1 /\ UNCHANGED <<workers, idx>>
Spawn == /\ pos < Len(Stream) /\ Msg.kind = "notif" /\ Cardinality(workers) < W
         /\ workers' = workers \cup {[n |-> pos + 1, del |-> Msg.del, upd |-> Msg.upd]}
         /\ pos' = pos + 1 /\ UNCHANGED <<cfg, st, idx, pruning>>
\* one Modify per delete path (all deletes before the updates)
WorkerDelete(w) == /\ w.del # {}
                   /\ \E d \in w.del :
                        /\ cfg' = CacheDelete(cfg, {d}) /\ st' = (IF Validate THEN CacheDelete(st, {d}) ELSE st)
                        /\ workers' = (workers \ {w}) \cup {[w EXCEPT !.del = @ \ {d}]}
                   /\ UNCHANGED <<pos, idx, pruning>>
WorkerWrite(w) == /\ w.del = {} /\ w.upd # {}
                  /\ \E q \in w.upd :
                       /\ IF IsState(q[1]) THEN st' = CacheWrite(st, {q}, idx) /\ cfg' = cfg
                          ELSE cfg' = CacheWrite(cfg, {q}, idx) /\ st' = st
                       /\ workers' = (workers \ {w}) \cup {[w EXCEPT !.upd = @ \ {q}]}
                  /\ UNCHANGED <<pos, idx, pruning>>
WorkerDone(w) == /\ w.del = {} /\ w.upd = {} /\ workers' = workers \ {w}
                 /\ UNCHANGED <<pos, cfg, st, idx, pruning>>

Next == RecvStart \/ RecvEnd \/ Spawn \/ \E w \in workers : WorkerDelete(w) \/ WorkerWrite(w) \/ WorkerDone(w)
Spec == Init /\ [][Next]_vars

Quiescent == pos = Len(Stream) /\ workers = {}
\* C13: at quiescence the stores hold exactly what the device last reported
Mirror == Quiescent => /\ Values(cfg) = ConfigPart(Reported(Stream), Validate)
                       /\ Values(st) = StatePart(Reported(Stream), Validate)
=============================================================================
