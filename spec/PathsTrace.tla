----------------------------- MODULE PathsTrace -----------------------------
(* Validation of the real path conversions and of the uses of the joined index key against Paths.tla.            *)
EXTENDS Paths, Json, IOUtils

TraceFile == IOEnv.VERIF_TRACE
OutFile == IOEnv.VERIF_OUT
Trace == ndJsonDeserialize(TraceFile)
VARIABLES l, stored, bad, nt
tvars == <<l, stored, bad, nt>>
SeqRange(s) == {s[i] : i \in 1..Len(s)}
MaxPrio == 2147483647

\* the abstract path of a JSON path (keys are a list of [name, value] pairs in any order)
KeysOf(ks) == IF Len(ks) = 0 THEN NoKeys ELSE [kn \in {q[1] : q \in SeqRange(ks)} |-> (CHOOSE q \in SeqRange(ks) : q[1] = kn)[2]]
PathOf(j) == [i \in 1..Len(j) |-> Elem(j[i].name, KeysOf(j[i].keys))]

MinOf(S) == CHOOSE x \in S : \A y \in S : x <= y
ConvClauses(e) ==
  LET p == PathOf(e.p) IN
  {<<"C11", "NoPanic", e.panic = "">>,
   <<"M", "ModelStrings", e.strs = ToStrings(p)>>,
   <<"C11", "StringsConvention", e.got = ToStrings(p)>>,
   <<"C11", "CompletePathSame", e.complete = e.got>>,
   <<"C11", "RoundTripStrings", e.backerr = "" /\ PathOf(e.back) = p>>,
   <<"C11", "RoundTripXPath", e.parseerr = "" /\ PathOf(e.parsed) = p>>,
   <<"C11", "RoundTripTree", e.leaf => (e.treeerr = "" /\ PathOf(e.tree) = p)>>}
ExistsClauses(e) ==
  {<<"C11", "NoPanic", e.panic = "">>,
   <<"C11", "AbsentNotFound", ~e.absentexists /\ Len(e.absentrunning) = 0>>,
   <<"C11", "PresentFound", e.presentexists /\ e.presentrunning = e.strs>>}
\* the precedence of a branch is the best priority among the stored leaves at or below it - decided on the
\* abstract paths, not on any string form
BranchClauses(e) ==
  LET q == PathOf(e.p)
      below == {s \in stored : AncestorOrSelf(q, s.p)}
      want == IF below = {} THEN MaxPrio ELSE MinOf({s.prio : s \in below})
  IN {<<"C11", "NoPanic", e.panic = "">>,
      <<"C11", "BranchPrecedence", e.branch = want>>}
Clauses(e) == CASE e.ev = "conv" -> ConvClauses(e)
                [] e.ev = "exists" -> ExistsClauses(e)
                [] e.ev = "branch" -> BranchClauses(e)
                [] e.ev = "import" -> {<<"C11", "NoPanic", e.panic = "">>,
                                       <<"C11", "ImportPosition", e.imperr = "" /\ e.imported = e.expected>>}
                [] e.ev = "pathset" -> {<<"C11", "NoPanic", e.panic = "">>, <<"C11", "PathSetKeepsAll", e.count = e.n /\ Len(e.missing) = 0>>}
                [] OTHER -> {}

Failed(cs, line) == {<<c[1], c[2], line>> : c \in {x \in cs : ~x[3]}}
TInit == l = 1 /\ stored = {} /\ bad = {} /\ nt = [conv |-> 0, multikey |-> 0, exists |-> 0, branch |-> 0, strictbranch |-> 0]
IsMultiKey(e) == \E i \in 1..Len(e.p) : Len(e.p[i].keys) > 1
Step == /\ l <= Len(Trace)
        /\ LET e == Trace[l] IN
             /\ bad' = bad \cup Failed(Clauses(e), l)
             /\ stored' = IF e.ev = "stored" THEN stored \cup {[p |-> PathOf(e.p), prio |-> e.prio]} ELSE stored
             /\ nt' = [conv |-> nt.conv + (IF e.ev = "conv" THEN 1 ELSE 0),
                       multikey |-> nt.multikey + (IF e.ev = "conv" /\ IsMultiKey(e) THEN 1 ELSE 0),
                       exists |-> nt.exists + (IF e.ev = "exists" THEN 1 ELSE 0),
                       branch |-> nt.branch + (IF e.ev = "branch" THEN 1 ELSE 0),
                       strictbranch |-> nt.strictbranch + (IF e.ev = "branch" /\ ~e.leaf /\ e.branch # MaxPrio THEN 1 ELSE 0)]
        /\ l' = l + 1
Finish == /\ l = Len(Trace) + 1
          /\ JsonSerialize(OutFile, [consumed |-> l - 1, total |-> Len(Trace), bad |-> SetToSeq(bad), nt |-> nt])
          /\ l' = l + 1 /\ UNCHANGED <<stored, bad, nt>>
TNext == Step \/ Finish
TSpec == TInit /\ [][TNext]_tvars
Accepted == TLCGet("stats").diameter = Len(Trace) + 2
=============================================================================
