------------------------------ MODULE SyncSem ------------------------------
(***************************************************************************)
(* What the running / state datastores must hold once a device's           *)
(* notification stream has been processed (C13), and the model of the      *)
(* cache as the sync path uses it (entries tagged with the prune index     *)
(* current at write time; ApplyPrune drops every entry with another tag).  *)
(* A stream is a sequence of messages                                      *)
(*   [kind |-> "start"], [kind |-> "end"],                                 *)
(*   [kind |-> "notif", del |-> set of nodes, upd |-> set of <<leaf, v>>]  *)
(* Containment of leaves under a deleted node is structural (UUnder).      *)
(***************************************************************************)
EXTENDS Integers, Sequences, FiniteSets, TLC, UniverseData

Without(f, S) == [l \in (DOMAIN f) \ S |-> f[l]]
Restrict(f, S) == [l \in (DOMAIN f) \cap S |-> f[l]]
PairsToFun(P) == [k \in {q[1] : q \in P} |-> (CHOOSE q \in P : q[1] = k)[2]]
Overlay(f, g) == [l \in (DOMAIN f) \cup (DOMAIN g) |-> IF l \in DOMAIN g THEN g[l] ELSE f[l]]
Covered(nodes) == UNION {UUnder[n] : n \in nodes \cap AllNode}

\* ---- the specification: the configuration the device last reported -----------------------------
\* r = [cfg : leaf -> value, seen : leaves reported in the running cycle, cyc : BOOLEAN]
ApplyMsg(r, m) ==
    CASE m.kind = "start" -> [cfg |-> r.cfg, seen |-> {}, cyc |-> TRUE]
      [] m.kind = "end"   -> IF r.cyc THEN [cfg |-> Restrict(r.cfg, r.seen), seen |-> {}, cyc |-> FALSE] ELSE r
      [] OTHER            -> LET c1 == Without(r.cfg, Covered(m.del))
                                 c2 == Overlay(c1, PairsToFun(m.upd))
                             IN [cfg |-> c2, seen |-> (r.seen \ Covered(m.del)) \cup {q[1] : q \in m.upd}, cyc |-> r.cyc]
Reported(stream) ==
    LET F[i \in 0..Len(stream)] == IF i = 0 THEN [cfg |-> <<>>, seen |-> {}, cyc |-> FALSE] ELSE ApplyMsg(F[i-1], stream[i])
    IN F[Len(stream)].cfg
\* with sync validation on, state (config false) leaves go to the state store
ConfigPart(f, validate) == IF validate THEN Without(f, UStateLeaf) ELSE f
StatePart(f, validate) == IF validate THEN Restrict(f, UStateLeaf) ELSE <<>>

\* ---- cache model: store = leaf -> [v, tag] ------------------------------------------------------
CacheWrite(st, upd, idx) == Overlay(st, [l \in {q[1] : q \in upd} |-> [v |-> (CHOOSE q \in upd : q[1] = l)[2], tag |-> idx]])
CacheDelete(st, nodes) == Without(st, Covered(nodes))
CachePrune(st, idx) == [l \in {k \in DOMAIN st : st[k].tag = idx} |-> st[l]]
Values(st) == [l \in DOMAIN st |-> st[l].v]
=============================================================================
