---------------------------- MODULE IntentsTrace ----------------------------
(***************************************************************************)
(* Trace validation of the real sdcio/data-server against the Intents      *)
(* specification (monitor style, step-wise with re-synchronisation).       *)
(*                                                                         *)
(* Every line of the ndjson trace is one API-level event of the real       *)
(* Datastore (TransactionSet / Confirm / Cancel / wait-for-expiry /        *)
(* restart) with its arguments, the collaborator calls it made (device     *)
(* Set payloads, cache Modify calls) and the full projected abstract state *)
(* afterwards.  Each step is checked from the observed pre-state against   *)
(* the operators of IntentsSem (the same ones Intents.tla is built from):  *)
(* a failed clause is recorded in `bad` with the property it belongs to    *)
(* and the remaining events are still examined.                            *)
(***************************************************************************)
EXTENDS IntentsSem, Json, IOUtils, SequencesExt

TraceFile == IOEnv.VERIF_TRACE
OutFile == IOEnv.VERIF_OUT
Trace == ndJsonDeserialize(TraceFile)

VARIABLES l,          \* next trace line
          intended, mirror, device,   \* observed abstract state after the last event
          ever,       \* spec history: leaves ever defined by an accepted intent
          open,       \* [id, armed]: observed open transaction
          txn,        \* spec history: [req, snap, dev] of the last applied transaction
          dry,        \* spec history: last dry-run prediction
          flt,        \* spec history: the last failed TransactionSet [req, I, d, ever] (C07 retry)
          dis,        \* disabled validator classes of the running behaviour (C04)
          lastSet,    \* spec history: verdict and resulting configuration of the last judged TransactionSet (C04)
          bad,        \* failed clauses: <<property, clause, line>>
          nt          \* non-trivial exercise counters per property
tvars == <<l, intended, mirror, device, ever, open, txn, dry, flt, dis, lastSet, bad, nt>>

SeqRange(s) == {s[i] : i \in 1..Len(s)}
Pairs(s) == {<<q[1], q[2]>> : q \in SeqRange(s)}
ObsIntended(s) == {Entry(q[1], q[2], q[3], q[4]) : q \in SeqRange(s)}
ObsFun(s) == PairsToFun(Pairs(s))
ReqOf(e) == {[o |-> i.o, p |-> i.p, kind |-> i.kind, upd |-> Pairs(i.upd)] : i \in SeqRange(e.intents)}
ChangeOf(c) == [upd |-> Pairs(c.upd), del |-> SeqRange(c.del)]
ModOf(m) == [o |-> m.o, p |-> m.p, del |-> SeqRange(m.del), upd |-> Pairs(m.upd)]

NoTxn == [valid |-> FALSE]
NoDry == [valid |-> FALSE]
NoFlt == [valid |-> FALSE]
NoSet == [valid |-> FALSE]
Props == {"C01", "C02", "C03", "C04", "C05", "C06", "C07", "C08", "C09", "C10", "M", "X"}

NoOpen == [id |-> "-", armed |-> FALSE, short |-> FALSE]
OpenProj == [id |-> open.id, armed |-> open.armed]
\* the open transaction after an event: what is observed, plus the timeout class of the Set that opened it
NextOpen(o, short) == [id |-> o.open.id, armed |-> o.open.armed, short |-> (o.open.id # "-" /\ short)]
Init == /\ l = 1 /\ intended = {} /\ mirror = <<>> /\ device = <<>> /\ ever = {}
        /\ open = NoOpen /\ txn = NoTxn /\ dry = NoDry /\ flt = NoFlt /\ dis = {} /\ lastSet = NoSet
        /\ bad = {} /\ nt = [p \in Props |-> 0]

\* names of the clauses that do not hold; cs is a set of <<property, clause, BOOLEAN>>
Failed(cs, line) == {<<c[1], c[2], line>> : c \in {x \in cs : ~x[3]}}
Bump(ps) == [p \in Props |-> IF p \in ps THEN nt[p] + 1 ELSE nt[p]]

FoldMods(I, ms) == LET F[i \in 0..Len(ms)] == IF i = 0 THEN I ELSE IntendedAfterMod(F[i-1], ModOf(ms[i])) IN F[Len(ms)]
IntendedMods(e) == SelectSeq(e.mods, LAMBDA m : m.store = "intended")
ConfigMods(e) == SelectSeq(e.mods, LAMBDA m : m.store = "config")
EmptyChange(c) == Len(c.upd) = 0 /\ Len(c.delraw) = 0

Obs(e) == [I |-> ObsIntended(e.post.intended), m |-> ObsFun(e.post.mirror), d |-> ObsFun(e.post.device),
           open |-> [id |-> e.post.open, armed |-> e.post.armed]]

NoEffect(e, o) == /\ o.I = intended /\ o.d = device /\ o.m = mirror
                  /\ Len(e.sets) = 0 /\ Len(e.mods) = 0

\* ---- C10: all southbound encodings of one change (rendered from the same tree inside the device's Set) -------
\* a JSON document cannot show a presence container separately from its children
JsonView(S) == {q \in S : ~(q[2] = "e:" /\ \E r \in S : r[1] \in AllLeaf /\ UPresenceParent[r[1]] = q[1])}
\* JSON and XML identify a list entry by its key members: a key leaf that accompanies another leaf of the same entry
\* is addressing, not part of the change (the proto rendering carries the keys in the path)
Content(S) == {q \in S : ~(q[1] \in UKeyLeaf /\ q[2] = "key" /\ \E r \in S : r[1] \in AllLeaf /\ r[1] \notin UKeyLeaf /\ UEntryOf[r[1]] = UEntryOf[q[1]])}
Same(A, B) == Content(JsonView(A)) = Content(JsonView(B))
\* a presence container that keeps a child on the device exists there already, implied by that child: restating it
\* or not denotes the same write (proto restates it when its owner changes, JSON/XML show it only through children)
\* ... and so does one the device holds explicitly: an XML document has to name the container to delete a leaf below it
Restated(S, c, dv) == {q \in S : q[2] = "e:"
                                  /\ \/ \E x \in DOMAIN dv : x \notin SeqRange(c.del) /\ x \in AllLeaf /\ UPresenceParent[x] = q[1]
                                     \/ (q[1] \in DOMAIN dv /\ q[1] \notin SeqRange(c.del))}
SameW(A, B, c, dv) == Same(A \ Restated(A, c, dv), B \ Restated(B, c, dv))
\* what an XML document deletes: the deleted elements plus, below an element with operation="replace", everything it does not restate
XmlDel(x) == SeqRange(x.del) \cup (SeqRange(x.replaceleaves) \ {q[1] : q \in Pairs(x.upd)})
\* the key elements of a list entry in which the document deletes something address that delete
\* (writing the key leaves of an entry in which something is deleted is no write at all - the entry exists -, so such key
\*  pairs are left out on both sides: proto restates them as updates when their owner changes, XML cannot tell the two apart)
NoAddrKeys(S, x) == {q \in S : ~(q[1] \in UKeyLeaf /\ q[2] = "key"
                                 /\ \E dl \in XmlDel(x) : dl \in AllLeaf /\ UEntryOf[dl] = UEntryOf[q[1]])}
XmlUpd(x) == NoAddrKeys(Pairs(x.upd), x)
XmlOpsOK(x) == LET del == IF x.opts[3] THEN "remove" ELSE "delete"
                   ok == IF x.opts[2] THEN {"nc:" \o del} ELSE {del}
               IN (SeqRange(x.ops) \ {"replace", "nc:replace"}) \subseteq ok
EncClauses(c, dv) ==
  LET pu == Pairs(c.upd)
      pd == SeqRange(c.del)
      X == SeqRange(c.enc.xml)
  IN {<<"C10", "RenderingsSucceed", Len(c.enc.errs) = 0 /\ \A x \in X : x.err = "">>,
      <<"C10", "JsonSameUpd", SameW(Pairs(c.enc.json), pu, c, dv)>>,
      <<"C10", "JsonIetfSameUpd", SameW(Pairs(c.enc.ietf), pu, c, dv)>>,
      <<"C10", "XmlSameUpd", \A x \in X : SameW(XmlUpd(x), NoAddrKeys(pu, x), c, dv)>>,
      \* deletes are compared by what they remove from the device: the delete of a whole list (proto) and the deletes of
      \* its entries (XML: a list has no element of its own) denote the same change when they cover the same device content
      <<"C10", "XmlSameDel", \A x \in X : XmlDel(x) \cap DOMAIN dv = pd \cap DOMAIN dv>>,
      <<"C10", "XmlNamespaces", \A x \in X : x.opts[1] => x.nsok>>,
      <<"C10", "XmlKeysFirst", \A x \in X : x.keysfirst>>,
      <<"C10", "XmlAllNamed", \A x \in X : x.allnamed /\ Len(x.unknownelems) = 0>>,
      <<"C10", "XmlDeleteOperation", \A x \in X : XmlOpsOK(x)>>,
      \* (a document is empty when the change writes nothing but restated presence containers and removes nothing the device holds)
      <<"C10", "EmptyAgree", \A x \in X : x.empty => ((pu \ Restated(pu, c, dv)) = {} /\ pd \cap DOMAIN dv = {})>>,
      <<"C10", "EmptyAgreeConverse", \A x \in X : (pu = {} /\ pd = {}) => x.empty>>,
      <<"C10", "FullViewsAgree", /\ Same(Pairs(c.enc.protoall), Pairs(c.enc.jsonall))
                                 /\ Same(Pairs(c.enc.jsonall), Pairs(c.enc.ietfall))
                                 /\ Same(Pairs(c.enc.xmlall), Pairs(c.enc.jsonall))>>}
EncOf(e) == UNION {EncClauses(e.sets[i], device) : i \in {j \in 1..Len(e.sets) : e.sets[j].hasenc}}

\* ---- TransactionSet ------------------------------------------------------------------
SetClauses(e, o) ==
  LET R == ReqOf(e)
      wf == DistinctOwners(R) /\ PrioOK(intended, R) /\ \A i \in R : KeysClosed(i.upd) /\ OneCasePerChoice(i.upd)
      I2 == NewStore(intended, R)
      E2 == ever \cup LeavesOf(I2)
      orph == Orphaned(intended, R)
      applied == e.ret = "ok" /\ ~e.dry
      verbatim == \A i \in R : i.kind = "set" /\ NewEntries(i) = OfOwner(intended, i.o)
      sent == IF Len(e.sets) >= 1 THEN ChangeOf(e.sets[1]) ELSE [upd |-> {}, del |-> {}]
  IN
  IF open.id # "-" THEN
     \* C06: a further TransactionSet is refused while one is open, without any effect
     {<<"C06", "SetRefusedWhileOpen", e.ret = "locked">>,
      <<"C06", "RefusedSetNoEffect", NoEffect(e, o) /\ o.open = OpenProj>>}
  ELSE IF ~wf THEN {<<"M", "RequestWellFormed", FALSE>>}
  ELSE IF e.failat > 0 THEN
     \* a collaborator call of this step was made to fail: only the C07 obligations apply to it
     {<<"C07", "Unlocked", e.ret = "error" => o.open.id = "-">>,
      <<"C07", "NoPartialAnswer", e.ret \in {"ok", "error", "invalid"}>>}
  ELSE IF applied THEN
     {<<"C04", "AppliedIsValid", ValidCfg(ResultOf(I2, device, ever, orph), dis)>>,
      <<"C01", "Converged", AdmConverged(o.d, I2)>>,
      <<"C01", "NoStale", AdmNoStale(device, o.d, E2, I2, orph)>>,
      <<"C01", "Untouched", AdmUntouched(device, o.d, E2)>>,
      <<"C08", "OneCase", AdmOneCase(o.d, I2)>>,
      <<"C08", "WinningCaseApplied", \A x \in EffLeaves(I2) : ChoiceOf(x) # NoChoice => Get(o.d, x) = Eff(I2)[x]>>,
      <<"C02", "IntendedExact", o.I = I2>>,
      <<"C06", "ArmedAfterSet", o.open = [id |-> e.id, armed |-> TRUE]>>,
      <<"C09", "NoopSendsNothing", verbatim => (\A i \in 1..Len(e.sets) : EmptyChange(e.sets[i]))>>,
      <<"C09", "NoopChangesNothing", verbatim => (o.I = intended /\ o.d = device /\ o.m = mirror)>>,
      <<"C03", "DryPredicts", (dry.valid /\ dry.I = intended /\ dry.d = device /\ dry.m = mirror /\ dry.req = R)
                                  => (Len(e.sets) = 1 /\ Pairs(e.sets[1].upd) = dry.upd /\ SeqRange(e.sets[1].delraw) = dry.delraw)>>,
      <<"C07", "RetryStore", (flt.valid /\ flt.req = R) => o.I = NewStore(flt.I, R)>>,
      <<"C07", "RetryDevice", (flt.valid /\ flt.req = R) =>
            LET J2 == NewStore(flt.I, R) IN AdmConverged(o.d, J2) /\ AdmOneCase(o.d, J2)
                 /\ AdmNoStale(flt.d, o.d, flt.ever \cup LeavesOf(J2), J2, Orphaned(flt.I, R))
                 /\ AdmUntouched(flt.d, o.d, flt.ever \cup LeavesOf(J2))>>,
      <<"M", "OneDeviceCall", Len(e.sets) = 1>>,
      <<"M", "DeviceModel", o.d = ApplyChange(device, sent)>>,
      <<"M", "CacheModel", FoldMods(intended, IntendedMods(e)) = o.I>>,
      <<"M", "MirrorTracksSent", o.m = ApplyChange(mirror, sent)>>}
  ELSE IF e.ret \in {"invalid"} \/ (e.ret = "ok" /\ e.dry) THEN
     {<<"C03", "NoEffect", NoEffect(e, o)>>,
      <<"C04", "Verdict", (e.ret = "ok") = ValidCfg(ResultOf(I2, device, ever, orph), dis)>>,
      <<"C06", "NotWedgedAfterNoApply", o.open.id = "-">>}
  ELSE IF e.ret = "error" THEN
     {<<"C07", "RetrySucceeds", ~(flt.valid /\ flt.req = R /\ e.failat = 0 /\ ~e.devfail)>>,
      <<"C07", "AllOrNothing", e.devfail => (o.I = intended /\ o.m = mirror /\ o.d = device)>>,
      <<"C07", "Unlocked", o.open.id = "-">>,
      <<"C06", "NotWedgedAfterError", o.open.id = "-">>}
  ELSE IF flt.valid /\ flt.req = R THEN {<<"C07", "RetrySucceeds", FALSE>>}
  ELSE {<<"C06", "UnexpectedRefusal", FALSE>>}

SetNT(e) ==
  LET R == ReqOf(e)
      I2 == NewStore(intended, R)
      applied == e.ret = "ok" /\ ~e.dry /\ open.id = "-"
      rulerChanged == \E x \in LeavesOf(intended) \cup LeavesOf(I2) :
                         \/ x \notin LeavesOf(I2) \/ x \notin LeavesOf(intended)
                         \/ Best(intended, x) # Best(I2, x)
      shadowedTouched == \E i \in R : \E x \in OfOwner(intended, i.o) : Best(intended, x.l).o # i.o
      verbatim == \A i \in R : i.kind = "set" /\ NewEntries(i) = OfOwner(intended, i.o)
      caseChange == \E c \in {ChoiceOf(x) : x \in LeavesOf(intended) \cup LeavesOf(I2)} \ {NoChoice} :
                       Contrib(intended, c) # {} /\ Contrib(I2, c) # {} /\ WinCase(intended, c) # WinCase(I2, c)
      reqLeaves == UNION {{q[1] : q \in i.upd} : i \in R}
      verdictBeyondRequest == open.id = "-" /\ e.ret \in {"ok", "invalid"} /\
            ValidCfg(ResultOf(I2, device, ever, Orphaned(intended, R)), dis) # ValidCfg(Restrict(ResultOf(I2, device, ever, Orphaned(intended, R)), reqLeaves), dis)
  IN (IF applied /\ rulerChanged THEN {"C01"} ELSE {})
     \cup (IF verdictBeyondRequest \/ (e.ret = "invalid" /\ open.id = "-") THEN {"C04"} ELSE {})
     \cup (IF applied /\ shadowedTouched THEN {"C02"} ELSE {})
     \cup (IF (e.ret = "invalid" \/ e.dry) /\ intended # {} THEN {"C03"} ELSE {})
     \cup (IF open.id # "-" \/ e.ret # "ok" \/ e.dry THEN {"C06"} ELSE {})
     \cup (IF (e.failat > 0 \/ e.devfail) /\ (Len(e.sets) > 0 \/ Len(e.mods) > 0) THEN {"C07"} ELSE {})
     \cup (IF applied /\ caseChange THEN {"C08"} ELSE {})
     \cup (IF applied /\ verbatim /\ intended # {} THEN {"C09"} ELSE {})

TxSet(e) ==
  LET o == Obs(e)
      R == ReqOf(e)
      applied == e.ret = "ok" /\ ~e.dry /\ open.id = "-"
  IN /\ bad' = bad \cup Failed(SetClauses(e, o) \cup EncOf(e), l)
     /\ nt' = Bump(SetNT(e) \cup (IF \E i \in 1..Len(e.sets) : e.sets[i].hasenc /\ Len(e.sets[i].upd) > 0 /\ Len(e.sets[i].del) > 0 THEN {"C10"} ELSE {}))
     /\ intended' = o.I /\ mirror' = (IF e.envsync THEN o.d ELSE o.m) /\ device' = o.d   \* env sync: mirror := device
     /\ open' = IF open.id = "-" THEN NextOpen(o, e.tmo < 5000) ELSE NextOpen(o, open.short)
     /\ ever' = IF applied THEN EverAfter(ever, intended, R, NewStore(intended, R), o.d) \cup LeavesOf(o.I)
               ELSE ever \cup LeavesOf(o.I)
     /\ txn' = IF applied THEN [valid |-> TRUE, id |-> e.id, req |-> R, snap |-> SnapOf(intended, R), dev |-> device, I |-> intended, repl |-> FALSE, m |-> mirror]
               ELSE txn
     /\ lastSet' = IF open.id = "-" /\ e.failat = 0 /\ ~e.devfail /\ e.ret \in {"ok", "invalid"}
                   THEN [valid |-> TRUE, ret |-> e.ret, cfg |-> ResultOf(NewStore(intended, R), device, ever, Orphaned(intended, R))]
                   ELSE NoSet
     /\ UNCHANGED dis
     /\ flt' = IF e.failat > 0 \/ e.devfail
               THEN (IF flt.valid /\ flt.req = R THEN flt
                     ELSE [valid |-> TRUE, req |-> R, I |-> intended, d |-> device, ever |-> ever])
               ELSE IF applied \/ ~(flt.valid /\ flt.req = R) THEN NoFlt ELSE flt
     /\ dry' = IF e.ret = "ok" /\ e.dry /\ open.id = "-"
               THEN [valid |-> TRUE, I |-> intended, d |-> device, m |-> mirror, req |-> R,
                     upd |-> Pairs(e.resp.upd), delraw |-> SeqRange(e.resp.delraw)]
               ELSE NoDry

\* ---- TransactionSet with a replace intent (and no other intents) ---------------------------
\* The content of the replace intent becomes the whole configuration of the device; the intended store is not
\* touched.  Like every transaction it is refused while another one is open, changes nothing when it is invalid or a
\* dry run - and an invalid one is never answered with success (C03) - and is undone by cancel / expiry (C05).
ReplCfg(e) == PairsToFun(Pairs(e.replace.upd))
\* an ordinary intent travels with the replace intent: the combined effect is not modelled; what C03 says about any
\* TransactionSet still applies - reported validation errors, or a dry run, mean that nothing happened
ReplaceMixedClauses(e, o) ==
  IF open.id # "-" THEN
     {<<"C06", "SetRefusedWhileOpen", e.ret = "locked">>,
      <<"C06", "RefusedSetNoEffect", NoEffect(e, o) /\ o.open = OpenProj>>}
  ELSE {<<"C03", "MixedReplaceRejectedNoEffect", e.ret \in {"invalid", "error"} => NoEffect(e, o)>>,
        <<"C03", "MixedReplaceDryNoEffect", e.dry => NoEffect(e, o)>>,
        <<"C06", "NotWedgedAfterError", (e.ret # "ok" \/ e.dry) => o.open.id = "-">>}
ReplaceClauses(e, o) ==
  LET cfg == ReplCfg(e)
      valid == ValidCfg(cfg, dis)
  IN
  IF Len(e.intents) > 0 THEN ReplaceMixedClauses(e, o)
  ELSE IF open.id # "-" THEN
     {<<"C06", "SetRefusedWhileOpen", e.ret = "locked">>,
      <<"C06", "RefusedSetNoEffect", NoEffect(e, o) /\ o.open = OpenProj>>}
  ELSE IF ~valid THEN
     {<<"C03", "ReplaceInvalidSurfaced", e.ret \in {"error", "invalid"}>>,
      <<"C03", "ReplaceInvalidNoEffect", NoEffect(e, o)>>,
      <<"C06", "NotWedgedAfterError", o.open.id = "-">>}
  ELSE IF e.dry THEN
     {<<"C03", "ReplaceDryOk", e.ret = "ok">>,
      <<"C03", "ReplaceDryNoEffect", NoEffect(e, o)>>,
      <<"C06", "DryRunLeavesNothingOpen", o.open.id = "-">>}
  ELSE
     {<<"C03", "ReplaceValidAccepted", e.ret = "ok">>,
      \* (not demanded by a listed property: the choice cases of the replace content lose against cases the intended
      \*  store holds, such content is dropped silently - reported as an observation)
      <<"X", "ReplaceApplied", o.d = cfg>>,
      <<"C02", "ReplaceKeepsIntents", o.I = intended>>,
      <<"C06", "ArmedAfterSet", o.open = [id |-> e.id, armed |-> TRUE]>>,
      <<"X", "ReplaceRunningTracksDevice", o.m = o.d>>}
TxReplace(e) ==
  LET o == Obs(e)
      applied == e.ret = "ok" /\ ~e.dry /\ open.id = "-"
  IN /\ bad' = bad \cup Failed(ReplaceClauses(e, o), l)
     /\ nt' = Bump((IF open.id = "-" /\ (e.dry \/ e.ret # "ok") /\ (device # <<>> \/ intended # {}) THEN {"C03"} ELSE {})
                   \cup (IF applied /\ ReplCfg(e) # device THEN {"C01"} ELSE {}))
     /\ intended' = o.I /\ mirror' = (IF e.envsync THEN o.d ELSE o.m) /\ device' = o.d
     /\ open' = IF open.id = "-" THEN NextOpen(o, e.tmo < 5000) ELSE NextOpen(o, open.short)
     /\ txn' = IF applied THEN [valid |-> TRUE, id |-> e.id, req |-> ReqOf(e), snap |-> SnapOf(intended, ReqOf(e)), dev |-> device, I |-> intended, repl |-> TRUE, m |-> mirror]
               ELSE txn
     /\ ever' = ever \cup LeavesOf(o.I)
     /\ lastSet' = NoSet /\ dry' = NoDry /\ flt' = NoFlt
     /\ UNCHANGED dis

\* ---- Confirm / Cancel / expiry --------------------------------------------------------
Matches(e) == open.id = e.id /\ open.id # "-"

\* a presence container exists on the device when it was set explicitly or when a leaf below it exists: both spellings
\* of the same configuration are equal for "restored"
PresNorm(d) == LET implied == {UPresenceParent[x] : x \in {y \in DOMAIN d : y \in AllLeaf /\ UPresenceParent[y] # "-"}}
               IN [x \in (DOMAIN d) \cup implied |-> IF x \in DOMAIN d THEN d[x] ELSE "e:"]
RollbackClauses(e, o) ==
  IF ~txn.valid THEN {<<"M", "RollbackWithoutTxn", FALSE>>} ELSE
  {<<"C05", "StoreRestored", o.I = RestoredStore(intended, txn.snap)>>,
   <<"C05", "StoreAsBefore", o.I = txn.I>>,
   <<"C05", "DeviceRestored", IF txn.repl THEN PresNorm(o.d) = PresNorm(txn.dev)   \* a replace intent touched the whole configuration
                              ELSE \A x \in TouchedLeaves(txn.snap, txn.req) : Get(PresNorm(o.d), x) = Get(PresNorm(txn.dev), x)>>,
   <<"C05", "RunningRestoredAfterReplace", (txn.repl /\ txn.req = {}) => o.m = txn.m>>,
   <<"C06", "ClosedAfterRollback", o.open.id = "-">>}

Unchanged(e, o) == NoEffect(e, o)

Confirm(e) ==
  LET o == Obs(e) IN
  /\ bad' = bad \cup Failed(
        IF Matches(e) /\ open.armed
        THEN {<<"C06", "ConfirmOk", e.ret = "ok">>, <<"C06", "ConfirmCloses", o.open.id = "-">>,
              <<"C06", "ConfirmKeepsState", Unchanged(e, o)>>}
        ELSE {<<"C06", "WrongIdFails", e.ret = "error">>,
              <<"C06", "WrongIdNoEffect", Unchanged(e, o) /\ o.open = OpenProj>>}, l)
  /\ nt' = Bump(IF ~Matches(e) /\ open.id # "-" THEN {"C06"} ELSE {})
  /\ intended' = o.I /\ mirror' = (IF e.envsync THEN o.d ELSE o.m) /\ device' = o.d /\ open' = NextOpen(o, open.short)
  /\ txn' = IF o.open.id = "-" THEN NoTxn ELSE txn
  /\ UNCHANGED <<ever, dry, flt, dis, lastSet>>

\* A cancel can carry an injected fault too (C07): one collaborator call of the rollback fails once. A cancel that answers
\* with an error must leave the transaction registered - the client repeats the cancel - and the repeated cancel, once the
\* fault is gone, ends in the state of a fault-free cancel.  (flt remembers the failed cancel: field cancelFault)
CancelFaulted(e) == e.failat > 0 \/ e.devfail
AfterFailedCancel == "cancelFault" \in DOMAIN flt
Cancel(e) ==
  LET o == Obs(e) IN
  /\ bad' = bad \cup Failed(
        IF Matches(e) /\ open.armed
        THEN IF CancelFaulted(e)
             THEN {<<"C07", "FailedCancelStaysOpen", e.ret = "error" => o.open.id = open.id>>}
                  \cup (IF e.ret = "ok" THEN RollbackClauses(e, o) ELSE {})
             ELSE {<<"C05", "CancelOk", e.ret = "ok">>} \cup RollbackClauses(e, o)
                  \cup (IF AfterFailedCancel /\ txn.valid
                        THEN {<<"C07", "CancelRetryConverges",
                                /\ e.ret = "ok" /\ o.open.id = "-"
                                /\ o.I = RestoredStore(intended, txn.snap)>>}   \* the device: compared with the fault-free cancel (bin/prop_c07.py)
                        ELSE {})
        ELSE {<<"C06", "WrongIdFails", e.ret = "error">>,
              <<"C06", "WrongIdNoEffect", Unchanged(e, o) /\ o.open = OpenProj>>}, l)
  /\ nt' = Bump((IF ~Matches(e) /\ open.id # "-" THEN {"C06"} ELSE {})
                \cup (IF Matches(e) /\ CancelFaulted(e) /\ e.ret = "error" THEN {"C07"} ELSE {})
                \cup (IF Matches(e) /\ txn.valid /\ (txn.I # intended \/ txn.repl) /\ txn.dev # device THEN {"C05"} ELSE {}))
  /\ intended' = o.I /\ mirror' = (IF e.envsync THEN o.d ELSE o.m) /\ device' = o.d /\ open' = NextOpen(o, open.short)
  /\ txn' = IF o.open.id = "-" THEN NoTxn ELSE txn
  /\ ever' = ever \cup LeavesOf(o.I)
  /\ flt' = IF Matches(e) /\ CancelFaulted(e) /\ e.ret = "error" THEN [valid |-> FALSE, cancelFault |-> TRUE]
            ELSE IF AfterFailedCancel THEN NoFlt ELSE flt
  /\ UNCHANGED <<dry, dis, lastSet>>

\* time passes: more than the short transaction timeout, less than the long one
Wait(e) ==
  LET o == Obs(e) IN
  /\ bad' = bad \cup Failed(
        IF open.id = "-" THEN {<<"C06", "IdleWaitNoEffect", Unchanged(e, o) /\ o.open = OpenProj>>}
        \* an applied short-timeout transaction expires during the wait whether or not the code was seen to arm its timer
        ELSE IF open.short /\ (open.armed \/ txn.valid)
             THEN RollbackClauses(e, o) \cup {<<"C06", "OneRollbackOnExpiry", Len(e.sets) <= (IF txn.valid /\ txn.repl THEN 2 ELSE 1)>>}
        ELSE IF open.armed THEN {<<"C06", "LongTransactionSurvivesWait", Unchanged(e, o) /\ o.open = OpenProj>>}
        ELSE {<<"C06", "NeverWedged", o.open.id = "-">>}, l)
  /\ nt' = Bump((IF open.id # "-" /\ open.armed /\ open.short /\ txn.valid /\ txn.I # intended /\ txn.dev # device THEN {"C05"} ELSE {})
                \cup (IF open.id # "-" THEN {"C06"} ELSE {}))
  /\ intended' = o.I /\ mirror' = (IF e.envsync THEN o.d ELSE o.m) /\ device' = o.d /\ open' = NextOpen(o, open.short)
  /\ txn' = IF o.open.id = "-" THEN NoTxn ELSE txn
  /\ ever' = ever \cup LeavesOf(o.I)
  /\ UNCHANGED <<dry, flt, dis, lastSet>>

Restart(e) ==
  LET o == Obs(e) IN
  /\ bad' = bad \cup Failed({<<"C07", "RestartKeepsStores", o.I = intended /\ o.d = device /\ o.m = mirror>>}, l)
  /\ intended' = o.I /\ mirror' = o.m /\ device' = o.d /\ open' = NextOpen(o, FALSE)
  /\ txn' = NoTxn /\ dry' = NoDry
  /\ UNCHANGED <<ever, nt, flt, dis, lastSet>>

Reset(e) ==
  LET o == Obs(e) IN
  /\ intended' = o.I /\ mirror' = o.m /\ device' = o.d /\ open' = NextOpen(o, FALSE)
  /\ ever' = {} /\ txn' = NoTxn /\ dry' = NoDry /\ flt' = NoFlt
  /\ dis' = SeqRange(e.disabled) /\ lastSet' = NoSet
  /\ bad' = bad \cup Failed({<<"M", "InitClean", o.I = {} /\ o.m = o.d /\ o.open.id = "-">>}, l)
  /\ UNCHANGED nt

\* C04 metamorphic probe: the resulting configuration of the last judged TransactionSet, submitted as ONE
\* intent to an EMPTY datastore (dry run), gets the same verdict
Probe(e) ==
  LET cfg == ObsFun(e.cfg)
      judged == lastSet.valid /\ lastSet.cfg = cfg
  IN /\ bad' = bad \cup Failed(
            (IF judged THEN {<<"C04", "Partition", e.ret = lastSet.ret>>} ELSE {})
            \cup {<<"C04", "ProbeVerdict", e.ret \in {"ok", "invalid"} /\ ((e.ret = "ok") = ValidCfg(cfg, dis))>>}, l)
     /\ nt' = Bump(IF judged THEN {"C04"} ELSE {})
     /\ UNCHANGED <<intended, mirror, device, ever, open, txn, dry, flt, dis, lastSet>>

Step ==
  /\ l <= Len(Trace)
  /\ LET e == Trace[l] IN
       CASE e.ev = "init" -> Reset(e)
         [] e.ev = "txset" /\ e.hasrepl -> TxReplace(e)
         [] e.ev = "txset" -> TxSet(e)
         [] e.ev = "confirm" -> Confirm(e)
         [] e.ev = "cancel" -> Cancel(e)
         [] e.ev = "wait" -> Wait(e)
         [] e.ev = "restart" -> Restart(e)
         [] e.ev = "probe" -> Probe(e)
  /\ l' = l + 1

Finish ==
  /\ l = Len(Trace) + 1
  /\ JsonSerialize(OutFile, [consumed |-> l - 1, total |-> Len(Trace),
                             bad |-> SetToSeq(bad), nt |-> nt])
  /\ l' = l + 1
  /\ UNCHANGED <<intended, mirror, device, ever, open, txn, dry, flt, dis, lastSet, bad, nt>>

Next == Step \/ Finish
Spec == Init /\ [][Next]_tvars
\* accepted iff the whole trace was consumed and the verdict written
Accepted == TLCGet("stats").diameter = Len(Trace) + 2
=============================================================================
