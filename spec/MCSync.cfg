SPECIFICATION Spec
CONSTANTS
  Stream <- StreamA
  W = 2
  Validate = TRUE
  Barrier = TRUE
INVARIANT Mirror
CHECK_DEADLOCK FALSE
