------------------------------- MODULE Shapes -------------------------------
(***************************************************************************)
(* The shape algebra of requests and device messages (C20).                *)
(*                                                                         *)
(* A request / message is described by five independent dimensions; the    *)
(* harness instantiates every applicable combination against the           *)
(* verification schema and sends it through the real entry point:          *)
(*   entry   which entry point receives it                                 *)
(*   node    the kind of schema node the path addresses                    *)
(*   path    how the path is bent (unknown / empty / extra elements ...),  *)
(*           absent altogether, or accompanied by a second update / path   *)
(*           in the same request (compound shapes: the same update twice,  *)
(*           the key-less path to a leaf of the list before / after an     *)
(*           entry of that list whose key value is that leaf's name)       *)
(*   key     how the keys of the last list element are bent                *)
(*   val     the kind of value (every TypedValue variant, JSON documents   *)
(*           of the right and the wrong type, nested, malformed ...)       *)
(* The server is a one-step machine: a call is received and MUST be        *)
(* answered with a response or an error.  It must never panic (the gRPC    *)
(* chain has no recovery interceptor: a panic kills the process) and       *)
(* never hang.                                                             *)
(***************************************************************************)
EXTENDS Naturals, FiniteSets, TLC

CONSTANTS Entries, Nodes, PathShapes, KeyShapes, ValKinds,
          ListNodes,      \* nodes whose path contains a list element (key shapes apply)
          MultiKeyNodes,  \* ... with more than one key
          ValuelessEntries, \* entry points that take a path only
          TextEntries,    \* entry points that carry values as text (XML)
          TextVals,       \* the value kinds that exist as text
          MultiEntries,   \* entry points whose request carries a sequence of updates / paths
          CompoundPaths,  \* path shapes with a second update / path in the same request
          KeylessPaths    \* ... where the second one is the key-less path to a leaf of the list

Shape == [entry : Entries, node : Nodes, path : PathShapes, key : KeyShapes, val : ValKinds]
Applicable(s) ==
   /\ (s.node \notin ListNodes) => s.key = "ok"
   /\ (s.key = "one_missing") => s.node \in MultiKeyNodes
   /\ (s.entry \in ValuelessEntries) => s.val = "string"
   /\ (s.entry \in TextEntries) => s.val \in TextVals
   /\ (s.path = "absent") => s.node = "root"
   /\ (s.path \in CompoundPaths) => (s.entry \in MultiEntries /\ s.key = "ok")
   /\ (s.path \in KeylessPaths) => s.node \in ListNodes
Shapes == {s \in Shape : Applicable(s)}

\* the string level: every string over an alphabet up to a length goes through the path parser family
RECURSIVE Pow(_, _)
Pow(b, n) == IF n = 0 THEN 1 ELSE b * Pow(b, n - 1)
RECURSIVE NumStrings(_, _)
NumStrings(a, n) == IF n = 0 THEN 1 ELSE Pow(a, n) + NumStrings(a, n - 1)

VARIABLES phase, cur, outcome
vars == <<phase, cur, outcome>>
None == [entry |-> "-", node |-> "-", path |-> "-", key |-> "-", val |-> "-"]
Init == phase = "idle" /\ cur = None /\ outcome = "-"
Call(s) == phase = "idle" /\ phase' = "called" /\ cur' = s /\ outcome' = "-"
\* the only two things the server may do with a call
Answer(o) == phase = "called" /\ o \in {"response", "error"} /\ phase' = "idle" /\ outcome' = o /\ UNCHANGED cur
Next == (\E s \in Shapes : Call(s)) \/ (\E o \in {"response", "error"} : Answer(o))
Spec == Init /\ [][Next]_vars /\ WF_vars(\E o \in {"response", "error"} : Answer(o))
TypeOK == phase \in {"idle", "called"} /\ outcome \in {"-", "response", "error"}
AlwaysAnswered == [](phase = "called" => <>(phase = "idle"))
=============================================================================
