SPECIFICATION Spec
CONSTANTS
  KeyVals <- MCKeyVals
  KeyVals3 <- MCKeyVals3
CHECK_DEADLOCK FALSE
