SPECIFICATION ESpec
CONSTANTS
  Entries <- MCEntries
  Nodes <- MCNodes
  PathShapes <- MCPathShapes
  KeyShapes <- MCKeyShapes
  ValKinds <- MCValKinds
  ListNodes <- MCListNodes
  MultiKeyNodes <- MCMultiKey
  ValuelessEntries = {"get"}
  TextEntries = {"xml", "import_json", "import_xml"}
  TextVals <- MCTextVals
  MultiEntries = {"set_dry", "set_apply", "sync", "get"}
  CompoundPaths <- MCCompound
  KeylessPaths <- MCKeyless
CHECK_DEADLOCK FALSE
