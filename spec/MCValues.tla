------------------------------ MODULE MCValues ------------------------------
(* Exhaustive exploration of Values.tla for all type leaves; every transition is printed once (TLC evaluates each   *)
(* action once per distinct state): the list is turned into one step on the real code per transition.              *)
EXTENDS Values, Json
MCSupply == {"typed", "typedmin", "string", "ascii", "alt", "json_leaf", "ietf_leaf", "json_doc", "json_num", "ietf_doc", "ietf_docq"}
MCReport == {"dev_typed", "dev_string", "dev_gnmi_typed", "dev_gnmi_ascii", "dev_gnmi_ietf", "dev_gnmi_json", "dev_gnmi_ietf_doc", "dev_gnmi_double", "dev_xml"}
Edge(op, d, f) == PrintT(<<"EDGE", ToJson([leaf |-> leaf, iv |-> iv, rv |-> rv, op |-> op, d |-> d, f |-> f])>>)
\* the generator follows what the code does where the model leaves the write open: written iff the intent's value changes
GNext == \/ \E d \in UVals[leaf], f \in SupplyForms : Edge("supply", d, f) /\ Supply(d, f, iv # d)
         \/ \E d \in UVals[leaf], f \in ReportForms : Edge("report", d, f) /\ Report(d, f)
         \/ (Edge("withdraw", "", "-") /\ Withdraw)
GSpec == Init /\ [][GNext]_vars
view == <<leaf, iv, rv>>
=============================================================================
