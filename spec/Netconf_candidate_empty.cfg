SPECIFICATION Spec
CONSTANTS
  CommitDS = "candidate"
  Doc = "empty"
INVARIANTS SuccessShape EmptyNoCalls ExactlyOneEdit NoLeftovers DiscardAfterFailure CommittedOnce Emit
CHECK_DEADLOCK FALSE
