------------------------------ MODULE TxnTrace ------------------------------
(***************************************************************************)
(* Validation of schedule replays of the real transaction life cycle       *)
(* (harness/drive/txn.go) against TxnImpl.  One trace line = the outcome   *)
(* of one schedule: answers of Confirm / Cancel / Set(T2), number of       *)
(* rollbacks of T1 seen on the device, the registered transaction at the   *)
(* end, hung calls, a panic of the process.                                *)
(*  - Conformance: when the code followed the whole TLC schedule, the      *)
(*    outcome is the one TxnImpl computes for that schedule (TLC checked    *)
(*    the C16 invariants on every reachable state of TxnImpl).             *)
(*  - Safety clauses that hold for EVERY interleaving are evaluated on      *)
(*    every run, followed or not.                                          *)
(***************************************************************************)
EXTENDS Integers, Sequences, FiniteSets, TLC, Json, IOUtils, SequencesExt

TraceFile == IOEnv.VERIF_TRACE
OutFile == IOEnv.VERIF_OUT
Trace == ndJsonDeserialize(TraceFile)

VARIABLES l, bad, nt
tvars == <<l, bad, nt>>

Has(e, op) == \E i \in 1..Len(e.ops) : e.ops[i] = op
Ans(e, p) == IF p \in DOMAIN e.answers THEN e.answers[p] ELSE "-"
ConfirmOkT1(e) == Has(e, "confirm") /\ e.confirmId = "T1" /\ Ans(e, "confirm") = "ok"
CancelOkT1(e) == Has(e, "cancel") /\ e.cancelId = "T1" /\ Ans(e, "cancel") = "ok"
T2Resolved(e) == \/ (Has(e, "confirm") /\ e.confirmId = "T2" /\ Ans(e, "confirm") = "ok")
                 \/ (Has(e, "cancel") /\ e.cancelId = "T2" /\ Ans(e, "cancel") = "ok")
ExpectedRollbacks(e) == IF ConfirmOkT1(e) THEN 0 ELSE IF CancelOkT1(e) \/ e.fires THEN 1 ELSE 0

Clauses(e) ==
  IF e.panic THEN {<<"C16", "NoPanic", FALSE>>} ELSE
  {<<"C16", "NoDeadlock", Len(e.hung) = 0>>,
   <<"C16", "ConfirmedKept", ConfirmOkT1(e) => (e.rollbacks = 0 /\ e.t1present)>>,
   <<"C16", "CancelledRolledBack", CancelOkT1(e) => (e.rollbacks = 1 /\ ~e.t1present)>>,
   <<"C16", "AtMostOnce", e.rollbacks <= 1>>,
   <<"C16", "ExactlyOnce", e.rollbacks = ExpectedRollbacks(e)>>,
   <<"C16", "ResolvedMeansClosed", (ConfirmOkT1(e) \/ CancelOkT1(e) \/ e.fires) => e.open # "T1">>,
   <<"C16", "KeptStaysOpenUntilResolved", (~ConfirmOkT1(e) /\ ~CancelOkT1(e) /\ ~e.fires /\ Ans(e, "set2") # "ok") => (e.open = "T1" /\ e.armed)>>,
   <<"C16", "WrongIdNoEffect", /\ (Has(e, "confirm") /\ e.confirmId = "X") => Ans(e, "confirm") \in {"err", "locked"}
                               /\ (Has(e, "cancel") /\ e.cancelId = "X") => Ans(e, "cancel") \in {"err", "locked"}>>,
   <<"C16", "NewerSurvives", (Ans(e, "set2") = "ok" /\ ~T2Resolved(e)) => (e.open = "T2" /\ e.armed /\ e.t2present)>>,
   <<"C16", "NotRefusedByWaiter", e.refused = "">>,
   <<"C16", "ConformsToTxnImpl", (e.drift = "" /\ ~e.free) =>
         /\ \A p \in {"confirm", "cancel", "set2"} : Has(e, p) => Ans(e, p) = e.exp.ret[p]
         /\ e.rollbacks = e.exp.rollbacks
         /\ e.open = (IF e.exp.slot = "none" THEN "-" ELSE e.exp.slot)>>}

Init == l = 1 /\ bad = {} /\ nt = [followed |-> 0, drifted |-> 0, interleaved |-> 0]
Failed(cs, line) == {<<c[1], c[2], line>> : c \in {x \in cs : ~x[3]}}
\* non-trivial: at least two processes interleave inside each other's steps
Interleaved(e) == \E i, j, k \in 1..Len(e.seen) : i < j /\ j < k /\ e.seen[i][1] = e.seen[k][1] /\ e.seen[j][1] # e.seen[i][1]

Step == /\ l <= Len(Trace)
        /\ LET e == Trace[l] IN
             /\ bad' = bad \cup Failed(Clauses(e), l)
             /\ nt' = [followed |-> nt.followed + (IF ~e.panic /\ e.drift = "" THEN 1 ELSE 0),
                       drifted |-> nt.drifted + (IF ~e.panic /\ e.drift # "" THEN 1 ELSE 0),
                       interleaved |-> nt.interleaved + (IF ~e.panic /\ Interleaved(e) THEN 1 ELSE 0)]
        /\ l' = l + 1
Finish == /\ l = Len(Trace) + 1
          /\ JsonSerialize(OutFile, [consumed |-> l - 1, total |-> Len(Trace), bad |-> SetToSeq(bad), nt |-> nt])
          /\ l' = l + 1 /\ UNCHANGED <<bad, nt>>
Next == Step \/ Finish
Spec == Init /\ [][Next]_tvars
Accepted == TLCGet("stats").diameter = Len(Trace) + 2
=============================================================================
