------------------------------- MODULE SyncGen -------------------------------
(* Stream generation for the sync engine: notification streams sampled from the message space of SyncSem   *)
(* (full re-sync cycles, on-change updates and deletes, prefix related entries and leaf names, state       *)
(* leaves); every stream is printed once as JSON together with the configuration it reports (Reported).    *)
EXTENDS SyncSem, Json, Randomization

GenLeaves == {"i1.name", "i1.val", "i2.name", "i2.val", "pl.a", "pl.ab", "s.host", "s.hostname", "s.tags", "s.uptime", "i1.oper", "c.x", "c.z"}
DelNodes == {"item[k1]", "item[k2]", "item[k1]/val", "plain/a", "plain", "sys/host", "sys", "ch/alpha", "item", "item[k1]/oper", "sys/uptime"}
KeyClose(S) == S \cup (IF S \cap {"i1.val", "i1.oper"} # {} THEN {"i1.name"} ELSE {}) \cup (IF "i2.val" \in S THEN {"i2.name"} ELSE {})
ValOf(l) == IF l \in UKeyLeaf THEN "key" ELSE RandomElement(UVals[l])
Upd(S) == {<<l, ValOf(l)>> : l \in KeyClose(S)}
RandNotif(j) == [kind |-> "notif",
              del |-> (IF RandomElement(1..3) = 1 THEN RandomSubset(RandomElement(1..3), DelNodes) ELSE {}),
              upd |-> Upd(RandomSubset(RandomElement(0..3), GenLeaves))]
S == [kind |-> "start"]
E == [kind |-> "end"]
Shape(k, i) == CASE k = 1 -> <<S, RandNotif(i * 100 + 1), RandNotif(i * 100 + 2), E>>
              [] k = 2 -> <<RandNotif(i * 100 + 3), RandNotif(i * 100 + 4), RandNotif(i * 100 + 5)>>
              [] k = 3 -> <<S, RandNotif(i * 100 + 6), RandNotif(i * 100 + 7), E, RandNotif(i * 100 + 8), S, RandNotif(i * 100 + 9), E>>
              [] k = 4 -> <<S, RandNotif(i * 100 + 10), E, RandNotif(i * 100 + 11), RandNotif(i * 100 + 12), S, RandNotif(i * 100 + 13), RandNotif(i * 100 + 14), E, RandNotif(i * 100 + 15)>>
              [] k = 5 -> <<RandNotif(i * 100 + 16), S, RandNotif(i * 100 + 17), RandNotif(i * 100 + 18), RandNotif(i * 100 + 19), E>>
NStreams == 40
Streams == {Shape(RandomElement(1..5), i) : i \in 1..NStreams}
MsgJson(m) == IF m.kind = "notif" THEN [kind |-> "notif", del |-> m.del, upd |-> m.upd] ELSE [kind |-> m.kind, del |-> {}, upd |-> {}]
Emit == PrintT(<<"SYNCSTREAMS", ToJson({[msgs |-> [i \in 1..Len(s) |-> MsgJson(s[i])]] : s \in Streams})>>)
ASSUME Emit
VARIABLE x
Spec == x = 0 /\ [][FALSE]_x
=============================================================================
