--------------------------- MODULE DeviationTrace ---------------------------
(* Validation of real deviation cycles against Deviation.tla: every trace line carries the store *)
(* contents the cycle ran on and the messages it sent; the messages must be START, exactly the   *)
(* set Expected of the specification (as a set: no duplicates, nothing missing, nothing extra),  *)
(* END.                                                                                          *)
EXTENDS Integers, Sequences, FiniteSets, TLC, Json, IOUtils, SequencesExt

TraceFile == IOEnv.VERIF_TRACE
OutFile == IOEnv.VERIF_OUT
Trace == ndJsonDeserialize(TraceFile)

VARIABLES l, bad, nt
tvars == <<l, bad, nt>>
SeqRange(s) == {s[i] : i \in 1..Len(s)}
Nil == "nil"
Absent == "absent"

\* the specification's Expected, evaluated on the observed store contents
Intended(e) == {[o |-> q[1], p |-> q[2], l |-> q[3], v |-> q[4]] : q \in SeqRange(e.intended)}
RunLeaves(e) == {q[1] : q \in SeqRange(e.running)}
RunVal(e, lf) == IF lf \in RunLeaves(e) THEN (CHOOSE q \in SeqRange(e.running) : q[1] = lf)[2] ELSE Absent
LeavesOf(e) == RunLeaves(e) \cup {x.l : x \in Intended(e)}
At(e, lf) == {x \in Intended(e) : x.l = lf}
Ruler(e, lf) == CHOOSE x \in At(e, lf) : \A y \in At(e, lf) : x.p <= y.p
Msg(reason, o, lf, exp, cur) == [reason |-> reason, intent |-> o, l |-> lf, exp |-> exp, cur |-> cur]
Unhandled(e) == {Msg("UNHANDLED", "", lf, Nil, RunVal(e, lf)) : lf \in {k \in LeavesOf(e) : RunVal(e, k) # Absent /\ At(e, k) = {}}}
NotApplied(e) == {Msg("NOT_APPLIED", Ruler(e, lf).o, lf, Ruler(e, lf).v, IF RunVal(e, lf) = Absent THEN Nil ELSE RunVal(e, lf)) :
                     lf \in {k \in LeavesOf(e) : At(e, k) # {} /\ RunVal(e, k) # Ruler(e, k).v}}
Overruled(e) == {Msg("OVERRULED", x.o, x.l, x.v, Ruler(e, x.l).v) : x \in {y \in Intended(e) : y # Ruler(e, y.l) /\ y.v # Ruler(e, y.l).v}}
Expected(e) == Unhandled(e) \cup NotApplied(e) \cup Overruled(e)

Updates(e) == {i \in 1..Len(e.msgs) : e.msgs[i].event = "UPDATE"}
Observed(e) == {Msg(e.msgs[i].reason, e.msgs[i].intent, e.msgs[i].l, e.msgs[i].exp, e.msgs[i].cur) : i \in Updates(e)}

Clauses(e) ==
  {<<"C15", "BracketedByStartEnd", Len(e.msgs) >= 2 /\ e.msgs[1].event = "START" /\ e.msgs[Len(e.msgs)].event = "END"
                                   /\ \A i \in 2..(Len(e.msgs) - 1) : e.msgs[i].event = "UPDATE">>,
   <<"C15", "NothingMissing", Expected(e) \subseteq Observed(e)>>,
   <<"C15", "NothingExtra", Observed(e) \subseteq Expected(e)>>,
   <<"C15", "NoDuplicates", Cardinality(Observed(e)) = Cardinality(Updates(e))>>,
   <<"C15", "AllWatchersServed", e.msgs2 = Len(e.msgs)>>}

Init == l = 1 /\ bad = {} /\ nt = [cycles |-> 0, allreasons |-> 0, nonempty |-> 0]
Failed(cs, line) == {<<c[1], c[2], line>> : c \in {x \in cs : ~x[3]}}
Step == /\ l <= Len(Trace)
        /\ LET e == Trace[l] IN
             /\ bad' = bad \cup Failed(Clauses(e), l)
             /\ nt' = [cycles |-> nt.cycles + 1,
                       nonempty |-> nt.nonempty + (IF Expected(e) # {} THEN 1 ELSE 0),
                       allreasons |-> nt.allreasons + (IF {m.reason : m \in Expected(e)} = {"UNHANDLED", "NOT_APPLIED", "OVERRULED"} THEN 1 ELSE 0)]
        /\ l' = l + 1
Finish == /\ l = Len(Trace) + 1
          /\ JsonSerialize(OutFile, [consumed |-> l - 1, total |-> Len(Trace), bad |-> SetToSeq(bad), nt |-> nt])
          /\ l' = l + 1 /\ UNCHANGED <<bad, nt>>
Next == Step \/ Finish
Spec == Init /\ [][Next]_tvars
Accepted == TLCGet("stats").diameter = Len(Trace) + 2
=============================================================================
