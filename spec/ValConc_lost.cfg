SPECIFICATION Spec
CONSTANTS
  Val <- MCVal
  Slot <- MCSlot
  Needs <- MCNeeds
  Observes <- NoObserves
  Atomic = FALSE
  Order <- MCOrder
INVARIANTS NoLostInsert
PROPERTY Terminates
CHECK_DEADLOCK FALSE
