SPECIFICATION GSpec
CONSTANTS
  Owner = {"A", "B", "C"}
  Prio = {5, 7, 8, 10, 12}
  PrioOf <- GenPrioOf
  Leaf <- GenDfltLeaf
  MaxUpd = 3
  MaxIntents = 2
  TxnId = {"t1", "t2"}
  WithFaults = FALSE
  FailKinds = {"none"}
  TmoKinds = {"short"}
  Disabled = {}
  UseBad = FALSE
  WithLifecycle = TRUE
  InitDevice <- GenDfltInit
INVARIANT Emit
CHECK_DEADLOCK FALSE
