------------------------------ MODULE ValConc ------------------------------
(***************************************************************************)
(* Concurrent validation with lazy loading (C17).                          *)
(*                                                                         *)
(* RootEntry.Validate starts one goroutine per child                       *)
(* (sharedEntryAttributes.Validate).  While it evaluates must statements   *)
(* and leafrefs a validator navigates into OTHER branches; a child that is *)
(* not in the tree is loaded on demand (tryLoading / tryLoadingDefault ->  *)
(* AddCacheUpdateRecursive: look the child up under the read lock of the   *)
(* child map, create it, add it under the write lock).                     *)
(*                                                                         *)
(*   Val        validators (one per branch)                                *)
(*   Slot       children that are loaded on demand                         *)
(*   Needs[v]   the slots v navigates to (and loads when absent)           *)
(*   Observes[v] slots whose mere PRESENCE v's own checks depend on        *)
(*              without loading them (counting children, "only defaults")  *)
(*   Atomic     look-up and creation are one critical section              *)
(*                                                                         *)
(* The code has Atomic = FALSE: look-up and creation are separate critical *)
(* sections, two validators can both create the same child and the second  *)
(* overwrites the first (NoLostInsert fails).  C17 only needs the VERDICTS *)
(* to be independent of the schedule: that holds as long as every instance *)
(* of a loaded child carries the same value and no check observes the      *)
(* presence of a lazily loaded child (Observes empty) - TLC checks exactly *)
(* this, and refutes it when Observes is not empty.                        *)
(***************************************************************************)
EXTENDS Naturals, FiniteSets, Sequences, TLC

CONSTANTS Val, Slot, Needs, Observes, Atomic, Order   \* Order: the sequence of validators of the sequential run

VARIABLES inmap,     \* slot -> instance currently in the child map (0: absent)
          created,   \* slot -> number of instances ever created
          pc,        \* validator -> "idle" | "lookup" | "create" | "done"
          todo,      \* validator -> slots still to navigate to
          at,        \* validator -> the slot it is working on
          seen,      \* validator -> observations: set of <<slot, what>>
          lockw      \* slot -> holder of the write lock of the child map, or "-"
vars == <<inmap, created, pc, todo, at, seen, lockw>>
NoSlot == "-"

Init == /\ inmap = [s \in Slot |-> 0] /\ created = [s \in Slot |-> 0]
        /\ pc = [v \in Val |-> "idle"] /\ todo = [v \in Val |-> Needs[v]] /\ at = [v \in Val |-> NoSlot]
        /\ seen = [v \in Val |-> {}] /\ lockw = [s \in Slot |-> "-"]

\* the checks of v that look at the presence of children without loading them
Observe(v) == /\ pc[v] = "idle" /\ \E s \in Observes[v] : <<s, "present">> \notin seen[v] /\ <<s, "absent">> \notin seen[v]
              /\ LET s == CHOOSE s \in Observes[v] : <<s, "present">> \notin seen[v] /\ <<s, "absent">> \notin seen[v] IN
                 seen' = [seen EXCEPT ![v] = @ \cup {<<s, IF inmap[s] # 0 THEN "present" ELSE "absent">>}]
              /\ UNCHANGED <<inmap, created, pc, todo, at, lockw>>
\* navigate to the next slot: look it up under the read lock
Lookup(v) == /\ pc[v] = "idle" /\ todo[v] # {}
             /\ \E s \in todo[v] :
                  /\ lockw[s] = "-"
                  /\ at' = [at EXCEPT ![v] = s] /\ todo' = [todo EXCEPT ![v] = @ \ {s}]
                  /\ IF inmap[s] # 0
                     THEN /\ seen' = [seen EXCEPT ![v] = @ \cup {<<s, "value">>}] /\ pc' = pc /\ UNCHANGED <<inmap, created, lockw>>
                     ELSE IF Atomic
                     THEN \* created within the same critical section
                          /\ created' = [created EXCEPT ![s] = @ + 1] /\ inmap' = [inmap EXCEPT ![s] = created[s] + 1]
                          /\ seen' = [seen EXCEPT ![v] = @ \cup {<<s, "value">>}] /\ pc' = pc /\ UNCHANGED lockw
                     ELSE /\ pc' = [pc EXCEPT ![v] = "create"] /\ UNCHANGED <<inmap, created, seen, lockw>>
\* create the child and add it under the write lock (overwrites whatever another validator added meanwhile)
Create(v) == /\ pc[v] = "create" /\ lockw[at[v]] = "-"
             /\ created' = [created EXCEPT ![at[v]] = @ + 1]
             /\ inmap' = [inmap EXCEPT ![at[v]] = created[at[v]] + 1]
             /\ seen' = [seen EXCEPT ![v] = @ \cup {<<at[v], "value">>}]
             /\ pc' = [pc EXCEPT ![v] = "idle"]
             /\ UNCHANGED <<todo, at, lockw>>
Finish(v) == /\ pc[v] = "idle" /\ todo[v] = {}
             /\ \A s \in Observes[v] : <<s, "present">> \in seen[v] \/ <<s, "absent">> \in seen[v]
             /\ pc' = [pc EXCEPT ![v] = "done"] /\ UNCHANGED <<inmap, created, todo, at, seen, lockw>>
Next == \E v \in Val : Observe(v) \/ Lookup(v) \/ Create(v) \/ Finish(v)
Spec == Init /\ [][Next]_vars /\ WF_vars(Next)

AllDone == \A v \in Val : pc[v] = "done"
\* the sequential run: the validators one after the other in Order; a slot is present for v iff an earlier validator needed it
Before(v) == {Order[i] : i \in 1..((CHOOSE j \in 1..Len(Order) : Order[j] = v) - 1)}
SeqSeen(v) == {<<s, "value">> : s \in Needs[v]}
              \cup {<<s, IF \E w \in Before(v) : s \in Needs[w] THEN "present" ELSE "absent">> : s \in Observes[v]}
SameVerdicts == AllDone => \A v \in Val : seen[v] = SeqSeen(v)
NoLostInsert == \A s \in Slot : created[s] <= 1
Terminates == <>AllDone
=============================================================================
