SPECIFICATION Spec
CONSTANTS
  KeyVals <- MCKeyValsT
  KeyVals3 <- MCKeyVals3T
CHECK_DEADLOCK FALSE
