SPECIFICATION Spec
CONSTANTS
  Owner = {"A", "B"}
  Prio = {5, 7, 10}
  PrioOf <- FaultPrioOf
  Leaf <- ValidLeaf
  MaxUpd = 2
  MaxIntents = 1
  TxnId = {"t1"}
  WithFaults = FALSE
  FailKinds = {"none"}
  TmoKinds = {"short"}
  Disabled = {}
  UseBad = TRUE
  WithLifecycle = FALSE
  InitDevice <- ValidInit
VIEW view
INVARIANTS DeviceValid TypeOK Converged StoreShape OneCase SlotSane
PROPERTIES ApplyAdmissible NoEffectSteps RollbackRestores
CHECK_DEADLOCK FALSE
