SPECIFICATION Spec
CONSTANTS
  Owner = {"A", "B"}
  Prio = {5, 7, 10}
  PrioOf <- CorePrioOf
  Leaf <- CoreLeaf
  MaxUpd = 2
  MaxIntents = 2
  TxnId = {"t1"}
  WithFaults = FALSE
  FailKinds = {"none"}
  TmoKinds = {"short"}
  Disabled = {}
  UseBad = FALSE
  WithLifecycle = FALSE
  InitDevice <- CoreInit
VIEW view
INVARIANTS TypeOK Converged StoreShape OneCase SlotSane
PROPERTIES ApplyAdmissible NoEffectSteps RollbackRestores
CHECK_DEADLOCK FALSE
