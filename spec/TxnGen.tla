------------------------------- MODULE TxnGen -------------------------------
(* Schedule generation from TxnImpl: with the history variable `sched` in the state (no VIEW) every   *)
(* path of the model is a distinct state; each complete schedule is printed once as JSON.            *)
EXTENDS TxnImpl, Json

Emit == AllDone => PrintT(<<"SCHED", ToJson([ops |-> Ops, confirmId |-> ConfirmId, cancelId |-> CancelId, schedule |-> sched,
                                              exp |-> [ret |-> ret, rollbacks |-> rollbacks, slot |-> slot, armed2 |-> armed2]])>>)
GSpec == Init /\ [][Next]_vars
=============================================================================
