SPECIFICATION Spec
