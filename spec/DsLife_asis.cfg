SPECIFICATION Spec
CONSTANTS MaxInc = 2  Vals = {"a", "b"}  Refuses = {FALSE}  StopResolves = FALSE
INVARIANTS TypeOK DeletedIsSilent
CHECK_DEADLOCK FALSE
