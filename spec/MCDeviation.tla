---------------------------- MODULE MCDeviation ----------------------------
EXTENDS Deviation, Json
MCPrio == [o \in {"A", "B", "C"} |-> CASE o = "A" -> 5 [] o = "B" -> 7 [] o = "C" -> 9]
V2(l) == CASE l = "pl.a" -> {"s:a", "s:b"} [] l = "pl.ab" -> {"s:a", "s:b"} [] l = "i1.mtu" -> {"u:1500", "u:9000"}
           [] l = "s.guard" -> {"b:true", "b:false"} [] l = "s.tags" -> {"ll:s:t1", "ll:s:t1|s:t2"} [] l = "i1.mode" -> {"en:on", "en:off"}
           [] l = "i1.val" -> {"s:a", "s:b"} [] l = "i2.val" -> {"s:a", "s:b"} [] OTHER -> {"s:a", "s:b"}
L1 == {"pl.a"}
L1u == {"i1.mtu"}
L1b == {"s.guard"}
L1l == {"s.tags"}
L2 == {"pl.a", "pl.ab"}
L2k == {"i1.val", "i2.val"}
ValsOf(S) == [l \in S |-> V2(l)]
\* emit every initial state once (generation for the conformance replay)
ValsL1 == ValsOf(L1)
ValsL1u == ValsOf(L1u)
ValsL1b == ValsOf(L1b)
ValsL1l == ValsOf(L1l)
ValsL2 == ValsOf(L2)
ValsL2k == ValsOf(L2k)
Emit == ~msgs.done => PrintT(<<"DEVSTATE", ToJson([intended |-> intended, running |-> running])>>)
=============================================================================
