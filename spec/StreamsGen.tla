----------------------------- MODULE StreamsGen -----------------------------
(* Fault scenarios of Streams.tla: the sequence of environment faults of every complete behaviour. *)
EXTENDS Streams, Json
Emit == returned => PrintT(<<"STREAMFAULTS", ToJson([n |-> N, faults |-> [i \in 1..Len(faults) |-> faults[i][1]]])>>)
GSpec == Init /\ [][Next]_vars
=============================================================================
