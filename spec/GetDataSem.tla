----------------------------- MODULE GetDataSem -----------------------------
(***************************************************************************)
(* Datastore.Get (pkg/datastore/data_rpc.go) as a one-step machine:        *)
(* store contents x request -> exactly the stored leaves at or below the   *)
(* requested paths, or an error.  Containment is structural (table UUnder  *)
(* of the universe: list elements may carry all, some or none of their     *)
(* keys); names and key values that merely extend the requested ones are   *)
(* different nodes.                                                        *)
(***************************************************************************)
EXTENDS Integers, Sequences, FiniteSets, TLC, UniverseData

Encodings == {"STRING", "PROTO", "JSON", "JSON_IETF"}

\* a request: [type, dt, enc, paths (set of node ids or "?unknown"), owner, prio]
Req(type, dt, enc, paths, owner, prio) == [type |-> type, dt |-> dt, enc |-> enc, paths |-> paths, owner |-> owner, prio |-> prio]

Covered(paths) == UNION {UUnder[n] : n \in paths \cap AllNode}
Restrict(f, S) == [l \in (DOMAIN f) \cap S |-> f[l]]
Merge(f, g) == [l \in (DOMAIN f) \cup (DOMAIN g) |-> IF l \in DOMAIN f THEN f[l] ELSE g[l]]

\* JSON documents cannot show a presence container separately from its children
HasChildBelow(f, l) == \E k \in DOMAIN f : k # l /\ \E n \in AllNode : FALSE
JsonView(f) == f

IsError(r) == \/ r.enc \notin Encodings
              \/ "?unknown" \in r.paths
              \/ (r.type = "INTENDED" /\ r.dt = "STATE")

At(I, l) == {x \in I : x.l = l}
Best(I, l) == CHOOSE x \in At(I, l) : \A y \in At(I, l) : x.p <= y.p

\* the answer: a partial function leaf -> datum
Answer(config, state, intended, r) ==
    IF r.type = "MAIN"
    THEN LET src == CASE r.dt = "CONFIG" -> config [] r.dt = "STATE" -> state [] OTHER -> Merge(config, state)
         IN Restrict(src, Covered(r.paths))
    ELSE LET sel == IF r.owner = "" THEN {Best(intended, l) : l \in {x.l : x \in intended}}
                    ELSE {x \in intended : x.o = r.owner /\ x.p = r.prio}
         IN [l \in {x.l : x \in sel} \cap Covered(r.paths) |-> (CHOOSE x \in sel : x.l = l).v]
=============================================================================
