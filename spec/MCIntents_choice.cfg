SPECIFICATION Spec
CONSTANTS
  Owner = {"A", "B"}
  Prio = {5, 7, 10}
  PrioOf <- CorePrioOf
  Leaf <- ChoiceLeaf
  MaxUpd = 2
  MaxIntents = 1
  TxnId = {"t1"}
  WithFaults = FALSE
  FailKinds = {"none"}
  TmoKinds = {"short"}
  WithLifecycle = FALSE
  InitDevice <- ChoiceInit
VIEW view
INVARIANTS TypeOK Converged StoreShape OneCase SlotSane
PROPERTIES ApplyAdmissible NoEffectSteps RollbackRestores
CHECK_DEADLOCK FALSE
