---------------------------- MODULE NetconfTrace ----------------------------
(* Validation of the real ncTarget.Set against Netconf.tla: every trace line is one Set call against a fake   *)
(* NETCONF driver that answers the k-th call with the outcome the TLC behaviour prescribes; the recorded call *)
(* sequence and the answer must be the ones of the model (exp), and the C18 clauses must hold on them.        *)
EXTENDS Integers, Sequences, FiniteSets, TLC, Json, IOUtils, SequencesExt
TraceFile == IOEnv.VERIF_TRACE
OutFile == IOEnv.VERIF_OUT
Trace == ndJsonDeserialize(TraceFile)
VARIABLES l, bad, nt
tvars == <<l, bad, nt>>
Ops(cs) == [i \in 1..Len(cs) |-> <<cs[i].op, cs[i].target, cs[i].outcome>>]
Edits(e) == {i \in 1..Len(e.calls) : e.calls[i].op = "edit-config"}
FailedCall(e) == \E i \in 1..Len(e.calls) : e.calls[i].outcome = "error" /\ e.calls[i].op # "discard"
Clauses(e) ==
  {<<"C18", "ConformsToModel", Ops(e.calls) = Ops(e.exp.calls) /\ e.ret = e.exp.ret>>,
   <<"C18", "SuccessShape", (e.ret = "ok" /\ e.doc = "nonempty") =>
        [i \in 1..Len(e.calls) |-> <<e.calls[i].op, e.calls[i].target>>] =
           (IF e.commitds = "candidate" THEN << <<"edit-config", "candidate">>, <<"commit", "-">> >> ELSE << <<"edit-config", "running">> >>)>>,
   <<"C18", "EmptyNoCalls", e.doc = "empty" => (Len(e.calls) = 0 /\ e.ret = "ok")>>,
   <<"C18", "ExactlyOneEdit", e.doc = "nonempty" => Cardinality(Edits(e)) = 1>>,
   <<"C18", "DiscardAfterFailure", (e.ret = "error" /\ e.commitds = "candidate" /\ FailedCall(e)) => e.calls[Len(e.calls)].op = "discard">>,
   <<"C18", "ErrorSurfaced", (\E i \in 1..Len(e.calls) : e.calls[i].outcome \in {"error", "eof"} /\ e.calls[i].op # "discard") => e.ret = "error">>,
   <<"C18", "OptionsPassed", Len(e.xmlopts) = 1 /\ e.xmlopts[1] = <<TRUE, e.opts[1], e.opts[2], e.opts[3]>>>>,
   <<"C18", "WarningsSurfaced", (e.ret = "ok" /\ Len(e.calls) > 0 /\ e.calls[1].outcome = "warning") => e.warnings >= 1>>}
Init == l = 1 /\ bad = {} /\ nt = [sets |-> 0, faulty |-> 0]
Failed(cs, line) == {<<c[1], c[2], line>> : c \in {x \in cs : ~x[3]}}
Step == /\ l <= Len(Trace)
        /\ LET e == Trace[l] IN
             /\ bad' = bad \cup Failed(Clauses(e), l)
             /\ nt' = [sets |-> nt.sets + 1, faulty |-> nt.faulty + (IF \E i \in 1..Len(e.calls) : e.calls[i].outcome \in {"error", "eof"} THEN 1 ELSE 0)]
        /\ l' = l + 1
Finish == /\ l = Len(Trace) + 1
          /\ JsonSerialize(OutFile, [consumed |-> l - 1, total |-> Len(Trace), bad |-> SetToSeq(bad), nt |-> nt])
          /\ l' = l + 1 /\ UNCHANGED <<bad, nt>>
Next == Step \/ Finish
Spec == Init /\ [][Next]_tvars
Accepted == TLCGet("stats").diameter = Len(Trace) + 2
=============================================================================
