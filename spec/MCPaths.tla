------------------------------ MODULE MCPaths ------------------------------
EXTENDS Paths, Json
MCKeyVals == {"a", "b", "a ", "a_b", "b_a", "_", "a/b", "b/a", "/", "a:b", "a=b", "a b", "a]", "[a]", "a\\b", "ab"}
MCKeyVals3 == {"a", "a_a", "_", "a/b"}
MCKeyValsT == MCKeyVals \cup {"b:a", "b=a", "b a", "a_", "_a", "a__b", "a/", "/a", "a b ", "a:", "=", "a.b", "a-b", "x y z", "aa"}
MCKeyVals3T == MCKeyVals3 \cup {"a_", "b", "a a"}
VARIABLE x
Init == x = 0
Next == UNCHANGED x
Spec == Init /\ [][Next]_x
PathJson(p) == [i \in 1..Len(p) |-> [name |-> p[i].name,
                                     keys |-> IF p[i].keys = NoKeys THEN <<>> ELSE [j \in 1..Len(DeclKeys[p[i].name]) |-> <<DeclKeys[p[i].name][j], p[i].keys[DeclKeys[p[i].name][j]]>>]]]
Emit == PrintT(<<"PATHS", ToJson([leaves |-> {[p |-> PathJson(p), strs |-> ToStrings(p)] : p \in LeafPaths},
                                  nodes |-> {[p |-> PathJson(p), strs |-> ToStrings(p)] : p \in EntryPaths \cup ContainerPaths},
                                  collisions |-> {<<ToStrings(c[1]), ToStrings(c[2])>> : c \in JoinCollisions}])>>)
Laws == RoundTripStrings /\ InjectiveStrings /\ PrefixIsAncestor
ASSUME Laws
ASSUME Emit
=============================================================================
