------------------------------- MODULE Values -------------------------------
(***************************************************************************)
(* Value life cycle of ONE leaf of a YANG built-in type (C12).             *)
(*                                                                         *)
(* The datastore holds, for the leaf, the value its intent supplies (iv)   *)
(* and the value the running store shows for the device (rv).  A value is  *)
(* an abstract datum; the input form (typed value, string, JSON document,  *)
(* device notification, NETCONF XML ...) is a parameter of the action that *)
(* does NOT take part in the successor state: that is the property.        *)
(*                                                                         *)
(*   Supply(d, f)  TransactionSet of the intent with the leaf = d given in *)
(*                 form f (pkg/datastore/transaction_rpc.go                *)
(*                 expandAndConvertIntent -> utils.Converter, validate-    *)
(*                 Update/ConvertTypedValueToYANGType), confirmed.         *)
(*                 The device is written iff rv # d (datum comparison:     *)
(*                 utils.EqualTypedValues through the tree).               *)
(*   Withdraw      the intent is deleted, the leaf is removed.             *)
(*   Report(d, f)  the device reports the leaf = d in form f through the   *)
(*                 sync path (utils.ToSchemaNotification/FromGNMITyped-    *)
(*                 Value, XML2sdcpbConfigAdapter.Transform, Converter.     *)
(*                 ConvertNotificationTypedValues): rv becomes d.          *)
(*                                                                         *)
(* Every output form is a projection of the state: the forms that show the *)
(* intended value denote iv, those that show the device denote rv, and the *)
(* change sent to the device denotes d in every encoding.                  *)
(***************************************************************************)
EXTENDS UniverseData, Naturals, Sequences, FiniteSets, TLC

CONSTANTS VLeaf,        \* the leaves explored (one behaviour = one leaf)
          SupplyForms,  \* input forms of a client
          ReportForms   \* input forms of a device

Absent == "absent"
VARIABLES leaf, iv, rv, act
vars == <<leaf, iv, rv, act>>
NoAct == [op |-> "init", d |-> Absent, f |-> "-", changed |-> FALSE]

\* output forms and what each denotes (the trace specification checks the real observations against these)
IntendedForms == {"store.intended", "str", "get.INTENDED.STRING", "get.INTENDED.PROTO", "get.INTENDED.JSON", "get.INTENDED.JSON_IETF"}
RunningForms  == {"store.running", "get.MAIN.STRING", "get.MAIN.PROTO", "get.MAIN.JSON", "get.MAIN.JSON_IETF"}
ChangeForms   == {"resp", "dev.proto", "dev.gnmi", "dev.json", "dev.ietf"} \cup {"dev.xml" \o x : x \in {"0", "1", "2", "3", "4", "5", "6", "7"}}
FullForms     == {"all.proto", "all.json", "all.ietf", "all.xml"}
Denotes(o, i, r) == IF o \in IntendedForms THEN i ELSE r

Init == /\ leaf \in VLeaf /\ iv = Absent /\ rv = Absent /\ act = NoAct

\* w: whether the device is written.  The intent's own value decides (new or updated value: written; C09: an unchanged
\* intent writes nothing); where that and the running value disagree both outcomes are admissible:
\*   iv = d, rv # d   the device deviates from an unchanged intent (reported by C15, not repaired by re-applying)
\*   iv # d, rv = d   the new value is on the device already (a redundant write is harmless)
WriteOK(d, w) == /\ (iv = d /\ rv = d) => ~w
                 /\ (iv # d /\ rv # d) => w
Supply(d, f, w) == /\ WriteOK(d, w)
                   /\ iv' = d /\ rv' = (IF w THEN d ELSE rv)
                   /\ act' = [op |-> "supply", d |-> d, f |-> f, changed |-> w]
                   /\ UNCHANGED leaf
\* withdrawing deletes what the intent owns; an intent that does not exist owns nothing
Withdraw == /\ iv' = Absent /\ rv' = (IF iv # Absent THEN Absent ELSE rv)
            /\ act' = [op |-> "withdraw", d |-> Absent, f |-> "-", changed |-> (iv # Absent /\ rv # Absent)]
            /\ UNCHANGED leaf
Report(d, f) == /\ rv' = d
                /\ act' = [op |-> "report", d |-> d, f |-> f, changed |-> FALSE]
                /\ UNCHANGED <<leaf, iv>>

Next == \/ \E d \in UVals[leaf], f \in SupplyForms, w \in BOOLEAN : Supply(d, f, w)
        \/ \E d \in UVals[leaf], f \in ReportForms : Report(d, f)
        \/ Withdraw
Spec == Init /\ [][Next]_vars

TypeOK == /\ leaf \in VLeaf /\ iv \in UVals[leaf] \cup {Absent} /\ rv \in UVals[leaf] \cup {Absent}
\* C12 on the model: whatever the input form, after a Supply every output form denotes the supplied datum,
\* after a Report the forms that show the device do, and the intended value is never touched by the device
\* C12 on the model: whatever the input form, after a Supply the forms that show the intent denote the supplied
\* datum, so does everything sent to the device, and the forms that show the device do once it was written;
\* after a Report the forms that show the device denote the reported datum and the intent is untouched
SuppliedIsShown == act.op = "supply" => /\ \A o \in IntendedForms : Denotes(o, iv, rv) = act.d
                                        /\ act.changed => \A o \in RunningForms : Denotes(o, iv, rv) = act.d
ReportedIsShown == act.op = "report" => \A o \in RunningForms : Denotes(o, iv, rv) = act.d
WithdrawnIsGone == act.op = "withdraw" => iv = Absent
\* the input form never decides whether the device is written or what the state becomes (checked on every step)
FormIrrelevant == [][\A d \in UVals[leaf], f, g \in SupplyForms, w \in BOOLEAN :
                        (ENABLED Supply(d, f, w)) <=> (ENABLED Supply(d, g, w))]_vars
EqualIsNoop == [][\A d \in UVals[leaf], f \in SupplyForms, w \in BOOLEAN : (Supply(d, f, w) /\ iv = d /\ rv = d) => (~w /\ rv' = rv)]_vars
DifferentIsWritten == [][\A d \in UVals[leaf], f \in SupplyForms, w \in BOOLEAN : (Supply(d, f, w) /\ iv # d /\ rv # d) => (w /\ rv' = d)]_vars
DeviceNeverWritesIntent == [][(\E d \in UVals[leaf], f \in ReportForms : Report(d, f)) => iv' = iv]_vars
=============================================================================
