SPECIFICATION Spec
CONSTANTS
  States <- MCStates
  Requests <- MCRequests
INVARIANTS NothingOutside ErrorsNotPartial SameAcrossEncodings
CHECK_DEADLOCK FALSE
