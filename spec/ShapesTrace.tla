---------------------------- MODULE ShapesTrace ----------------------------
(* Validation of the calls made with every shape against Shapes.tla: a call is answered with a response or an error. *)
EXTENDS Shapes, Json, IOUtils, Sequences, SequencesExt

TraceFile == IOEnv.VERIF_TRACE
OutFile == IOEnv.VERIF_OUT
Trace == ndJsonDeserialize(TraceFile)
VARIABLES l, bad, nt
tvars == <<l, phase, cur, outcome, bad, nt>>
ShapeOf(e) == [entry |-> e.s[1], node |-> e.s[2], path |-> e.s[3], key |-> e.s[4], val |-> e.s[5]]
TInit == l = 1 /\ Init /\ bad = {} /\ nt = [calls |-> 0, responses |-> 0, errors |-> 0, strings |-> 0]
\* one trace line = Call followed by Answer; an outcome the model does not have (panic, hang) is a violation
ShapeStep(e) ==
             \* Call(ShapeOf(e)) composed with Answer(e.outcome), written out (TLC has no action composition)
             /\ phase = "idle" /\ phase' = "idle" /\ cur' = ShapeOf(e)
             /\ outcome' = (IF e.outcome \in {"response", "error"} THEN e.outcome ELSE "-")
             /\ bad' = IF e.outcome \in {"response", "error"} THEN bad
                       ELSE bad \cup {<<"C20", IF e.outcome = "panic" THEN "NoPanic" ELSE "NoHang", l>>}
             /\ nt' = [nt EXCEPT !.calls = @ + 1, !.responses = @ + (IF e.outcome = "response" THEN 1 ELSE 0),
                                 !.errors = @ + (IF e.outcome = "error" THEN 1 ELSE 0)]
\* the parser family was given every string: the count is the size of the set, nothing panicked, nothing stalled
StringsStep(e) ==
             /\ UNCHANGED <<phase, cur, outcome>>
             /\ bad' = bad \cup (IF e.count = NumStrings(Len(e.alphabet), e.maxlen) THEN {} ELSE {<<"M", "AllStrings", l>>})
                            \cup (IF Len(e.panics) = 0 THEN {} ELSE {<<"C20", "ParserNoPanic", l>>})
                            \cup (IF e.hang = "" THEN {} ELSE {<<"C20", "ParserNoHang", l>>})
             /\ nt' = [nt EXCEPT !.strings = @ + e.count]
Step == /\ l <= Len(Trace)
        /\ LET e == Trace[l] IN IF e.ev = "strings" THEN StringsStep(e) ELSE ShapeStep(e)
        /\ l' = l + 1
Finish == /\ l = Len(Trace) + 1
          /\ JsonSerialize(OutFile, [consumed |-> l - 1, total |-> Len(Trace), bad |-> SetToSeq(bad), nt |-> nt])
          /\ l' = l + 1 /\ UNCHANGED <<phase, cur, outcome, bad, nt>>
TNext == Step \/ Finish
TSpec == TInit /\ [][TNext]_tvars
Accepted == TLCGet("stats").diameter = Len(Trace) + 2
=============================================================================
