------------------------------ MODULE MCShapes ------------------------------
EXTENDS Shapes, Json
MCEntries == {"set_dry", "set_apply", "get", "sync", "xml", "import_json", "import_xml"}
TypeLeaves == {"ty.i8", "ty.i64", "ty.u8", "ty.u64", "ty.d2", "ty.d18", "ty.b", "ty.e", "ty.en", "ty.idr", "ty.un", "ty.un2", "ty.str", "ty.bin", "ty.bits",
               "ty.ll-u8", "ty.ll-str", "ty.ll-d2", "ty.ll-idr"}
MCNodes == {"root", "container", "container2", "presence", "list", "list2", "list3", "entry", "entry2", "entry3", "leaf.string", "leaf.uint", "leaf.enum", "leaf.leafref",
            "leaf.must", "leaf.state", "leaflist", "keyleaf", "keyleaf2", "choice", "entryleaf", "entry2leaf", "entry3leaf", "augmented", "presenceleaf"} \cup TypeLeaves
MCListNodes == {"entry", "entry2", "entry3", "keyleaf", "keyleaf2", "choice", "entryleaf", "entry2leaf", "entry3leaf", "leaf.enum"}
MCMultiKey == {"entry2", "entry3", "keyleaf2", "entry2leaf", "entry3leaf"}
MCPathShapes == {"exact", "unknown_last", "unknown_mid", "empty_name", "below_leaf", "module_prefixed", "bad_prefix", "origin", "deep", "keys_on_nonlist", "nil_elem",
                 "absent", "twice", "plus_keyless_before", "plus_keyless_after"}
MCCompound == {"twice", "plus_keyless_before", "plus_keyless_after"}
MCKeyless == {"plus_keyless_before", "plus_keyless_after"}
MCKeyShapes == {"ok", "none", "one_missing", "extra", "empty_value", "wrong_name", "weird_value"}
MCValKinds == {"nil", "unset", "string", "string_empty", "string_num", "ascii", "int_neg", "int_min", "uint", "uint_max", "bool", "bytes", "decimal", "decimal_prec",
               "double", "double_nan", "float", "empty", "ll_empty", "ll_strings", "ll_nested", "ll_nilelem", "ll_mixed", "json_num", "json_str", "json_obj_empty",
               "json_arr_empty", "json_null", "json_deep", "json_malformed", "json_unknown_member", "json_obj_for_leaf", "json_list_ok", "json_list_nokey",
               "json_list_scalar", "ietf_prefixed", "ietf_bad_prefix", "json_bigint", "json_float_for_int", "any_nil", "protobytes", "idref_unknown", "idref_nil",
               "members_null", "members_num", "members_bool", "members_str", "members_arr_empty", "members_arr", "members_arr_null", "members_arr_nested", "members_obj_empty", "members_obj"}
MCTextVals == {"string", "string_empty", "string_num", "json_obj_empty", "ll_strings", "json_deep", "json_unknown_member", "json_list_nokey", "json_bigint"}
\* emission only: the behaviours of the one-step machine are checked with small sets (MCShapesLive.cfg)
ESpec == phase = "idle" /\ cur = None /\ outcome = "-" /\ [][UNCHANGED vars]_vars
Emit == PrintT(<<"SHAPES", ToJson({<<s.entry, s.node, s.path, s.key, s.val>> : s \in Shapes})>>)
ASSUME Emit
=============================================================================
