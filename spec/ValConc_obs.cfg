SPECIFICATION Spec
CONSTANTS
  Val <- MCVal
  Slot <- MCSlot
  Needs <- MCNeeds
  Observes <- SomeObserves
  Atomic = FALSE
  Order <- MCOrder
INVARIANTS SameVerdicts
PROPERTY Terminates
CHECK_DEADLOCK FALSE
