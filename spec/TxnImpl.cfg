SPECIFICATION Spec
CONSTANTS
  Ops = {"confirm", "cancel", "set2"}
  ConfirmId = "T1"
  CancelId = "T1"
  MaxRetry = 2
VIEW view
INVARIANTS ConfirmedKept CancelledOnce AtMostOnce ExactlyOnce NewerSurvives WrongIdNoEffect NotRefusedByWaiter SlotSane
PROPERTIES Terminates
CHECK_DEADLOCK FALSE
