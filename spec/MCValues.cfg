SPECIFICATION Spec
CONSTANTS
  VLeaf <- Fam_types
  SupplyForms <- MCSupply
  ReportForms <- MCReport
INVARIANTS TypeOK SuppliedIsShown ReportedIsShown WithdrawnIsGone
PROPERTIES EqualIsNoop DifferentIsWritten DeviceNeverWritesIntent
CHECK_DEADLOCK FALSE
