SPECIFICATION TSpec
CONSTANTS MaxInc = 4  Vals = {"a", "b"}  Refuses = {FALSE}  StopResolves = TRUE
CONSTRAINT Mark
POSTCONDITION Accepted
CHECK_DEADLOCK FALSE
