SPECIFICATION Spec
CONSTANTS
  CommitDS = "running"
  Doc = "empty"
INVARIANTS SuccessShape EmptyNoCalls ExactlyOneEdit NoLeftovers DiscardAfterFailure CommittedOnce Emit
CHECK_DEADLOCK FALSE
