------------------------------- MODULE MCSync -------------------------------
EXTENDS Sync
N(d, u) == [kind |-> "notif", del |-> d, upd |-> u]
S == [kind |-> "start"]
E == [kind |-> "end"]
\* full cycle, then on-change delete of a prefix related entry and leaf, then a second cycle that no longer reports a leaf
StreamA == << S, N({}, {<<"i1.name", "key">>, <<"i1.val", "s:a">>, <<"i2.name", "key">>, <<"i2.val", "s:b">>}), N({}, {<<"s.host", "s:abc">>, <<"s.hostname", "s:a">>, <<"s.uptime", "u:1">>}), E,
              N({"item[k1]", "sys/host"}, {<<"pl.a", "s:a">>}),
              S, N({}, {<<"i2.name", "key">>, <<"i2.val", "s:a">>}), E >>
\* two notifications that touch the same leaf
StreamB == << N({}, {<<"pl.a", "s:a">>}), N({}, {<<"pl.a", "s:b">>}), N({"plain/a"}, {}) >>
=============================================================================
