SPECIFICATION TSpec
CONSTANTS
  KeyVals = {}
  KeyVals3 = {}
POSTCONDITION Accepted
CHECK_DEADLOCK FALSE
