------------------------------ MODULE GetData ------------------------------
(* Datastore.Get as a one-step machine over the operators of GetDataSem (shared with the trace spec). *)
EXTENDS GetDataSem

VARIABLES config, state, intended, req, answer
vars == <<config, state, intended, req, answer>>
CONSTANTS States,   \* set of [config, state, intended]
          Requests  \* set of requests
Init == /\ \E s \in States : config = s.config /\ state = s.state /\ intended = s.intended
        /\ req \in Requests /\ answer = [done |-> FALSE]
Get == /\ ~answer.done
       /\ answer' = IF IsError(req) THEN [done |-> TRUE, err |-> TRUE, leaves |-> <<>>]
                    ELSE [done |-> TRUE, err |-> FALSE, leaves |-> Answer(config, state, intended, req)]
       /\ UNCHANGED <<config, state, intended, req>>
Spec == Init /\ [][Get]_vars

\* C14: nothing outside the requested paths, everything stored below them, errors carry no data
NothingOutside == (answer.done /\ ~answer.err) => DOMAIN answer.leaves \subseteq Covered(req.paths)
ErrorsNotPartial == (answer.done /\ answer.err) => answer.leaves = <<>>
\* the main datastore answers the same in every encoding (the answer does not depend on req.enc)
SameAcrossEncodings == \A e \in Encodings : Answer(config, state, intended, req) = Answer(config, state, intended, [req EXCEPT !.enc = e])
=============================================================================
