----------------------------- MODULE MCValConc -----------------------------
EXTENDS ValConc, Json
MCVal == {"v1", "v2", "v3"}
MCSlot == {"s1", "s2"}
MCNeeds == [v \in MCVal |-> CASE v = "v1" -> {"s1", "s2"} [] v = "v2" -> {"s1"} [] OTHER -> {"s2", "s1"}]
NoObserves == [v \in MCVal |-> {}]
SomeObserves == [v \in MCVal |-> IF v = "v2" THEN {"s2"} ELSE {}]
MCOrder == <<"v1", "v2", "v3">>
\* scenarios for the real validators: what the list entries carry and which defects are seeded
Feats == {"peer", "check", "gcheck", "rcheck", "gname", "opt", "tags", "dcheck"}
DefectOf == [dangling_peer |-> "peer", weight_low |-> "check", limit_low |-> "gcheck", role_b |-> "rcheck",
             missing_mandatory |-> "opt", too_many_tags |-> "tags", dangling_gname |-> "gname"]
Scenarios == {[feats |-> F, defects |-> D] : F \in {X \in SUBSET Feats : Cardinality(X) >= 2},
                                             D \in SUBSET {"dangling_peer", "weight_low", "role_b", "missing_mandatory", "too_many_tags", "dangling_gname", "range"}}
Fits(sc) == \A d \in sc.defects : d = "range" \/ DefectOf[d] \in sc.feats
EmitScen == PrintT(<<"SCEN", ToJson({sc \in Scenarios : Fits(sc) /\ Cardinality(sc.defects) <= 3})>>)
=============================================================================
