SPECIFICATION TSpec
CONSTANTS
  VLeaf <- Fam_types
  SupplyForms = {}
  ReportForms = {}
POSTCONDITION Accepted
CHECK_DEADLOCK FALSE
