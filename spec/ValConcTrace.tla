--------------------------- MODULE ValConcTrace ---------------------------
(* Validation of the recorded verdicts of the real validators: for the same transaction and state every concurrent   *)
(* run (any GOMAXPROCS, any repetition, with or without the adversarial gate at the look-up miss) returns the verdict *)
(* of the sequential run.                                                                                            *)
EXTENDS Naturals, Sequences, FiniteSets, TLC, Json, IOUtils, SequencesExt

TraceFile == IOEnv.VERIF_TRACE
OutFile == IOEnv.VERIF_OUT
Trace == ndJsonDeserialize(TraceFile)
VARIABLES l, ref, bad, nt
tvars == <<l, ref, bad, nt>>
NoRef == [b |-> "-", errors |-> <<>>, warnings |-> <<>>, ret |-> "-", updates |-> 0]
TInit == l = 1 /\ ref = NoRef /\ bad = {} /\ nt = [scenarios |-> 0, runs |-> 0, witherrors |-> 0, paired |-> 0, overwrites |-> 0]
Step == /\ l <= Len(Trace)
        /\ LET e == Trace[l] IN
             IF e.mode = "seq"
             THEN /\ ref' = [b |-> e.b, errors |-> e.errors, warnings |-> e.warnings, ret |-> e.ret, updates |-> e.updates]
                  \* a scenario with a seeded defect must be refused by the sequential run already (otherwise the comparison is vacuous)
                  /\ bad' = bad \cup (IF Len(e.defects) > 0 /\ Len(e.errors) = 0 THEN {<<"M", "DefectsAreErrors", l>>} ELSE {})
                  /\ nt' = [nt EXCEPT !.scenarios = @ + 1, !.witherrors = @ + (IF Len(e.errors) > 0 THEN 1 ELSE 0)]
             ELSE /\ ref' = ref
                  /\ bad' = bad \cup (IF ref.b # e.b THEN {<<"M", "HasReference", l>>} ELSE {})
                                \cup (IF ref.b = e.b /\ (e.errors # ref.errors \/ e.ret # ref.ret) THEN {<<"C17", "SameErrors", l>>} ELSE {})
                                \cup (IF ref.b = e.b /\ e.warnings # ref.warnings THEN {<<"C17", "SameWarnings", l>>} ELSE {})
                                \cup (IF ref.b = e.b /\ e.updates # ref.updates THEN {<<"C17", "SameResult", l>>} ELSE {})
                  /\ nt' = [nt EXCEPT !.runs = @ + 1, !.paired = @ + e.paired, !.overwrites = @ + e.overwrites]
        /\ l' = l + 1
Finish == /\ l = Len(Trace) + 1
          /\ JsonSerialize(OutFile, [consumed |-> l - 1, total |-> Len(Trace), bad |-> SetToSeq(bad), nt |-> nt])
          /\ l' = l + 1 /\ UNCHANGED <<ref, bad, nt>>
TNext == Step \/ Finish
TSpec == TInit /\ [][TNext]_tvars
Accepted == TLCGet("stats").diameter = Len(Trace) + 2
=============================================================================
