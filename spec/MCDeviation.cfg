SPECIFICATION Spec
CONSTANTS
  Leaves <- L2
  Owners = {"A", "B", "C"}
  PrioOf <- MCPrio
  Vals <- ValsL2
INVARIANTS SilentWhenAgreeing ReportedIffDeviates OneNotAppliedPerPath
CHECK_DEADLOCK FALSE
