----------------------------- MODULE Deviation -----------------------------
(***************************************************************************)
(* One deviation cycle (Datastore.runDeviationUpdate, datastore_rpc.go) as *)
(* a one-step machine: from the contents of the intended store and of the  *)
(* running store it yields the exact set of messages the cycle must send,  *)
(* bracketed by START and END.                                             *)
(*   UNHANDLED   a running path that no intent defines                     *)
(*   NOT_APPLIED the ruling intent of a path whose running value differs   *)
(*               from the ruling value or is missing                       *)
(*   OVERRULED   a lower-precedence intent whose value differs from the    *)
(*               ruling one                                                *)
(* expected value = what the named intent wants, current value = what is   *)
(* in effect instead (running value for NOT_APPLIED / UNHANDLED, the ruling *)
(* intent's value for OVERRULED, unset when the path is missing).          *)
(***************************************************************************)
EXTENDS Integers, Sequences, FiniteSets, TLC

CONSTANTS Leaves,     \* leaf ids of this configuration
          Owners,     \* intent names
          PrioOf,     \* [Owners -> Nat], pairwise distinct
          Vals        \* [Leaves -> set of datums]

Absent == "absent"
Nil == "nil"

VARIABLES intended,   \* set of [o, p, l, v]
          running,    \* [Leaves -> datum or Absent]
          msgs        \* [done, set]: the messages of the cycle once it ran
vars == <<intended, running, msgs>>

At(l) == {x \in intended : x.l = l}
Ruler(l) == CHOOSE x \in At(l) : \A y \in At(l) : x.p <= y.p

Msg(reason, o, l, exp, cur) == [reason |-> reason, intent |-> o, l |-> l, exp |-> exp, cur |-> cur]

Unhandled == {Msg("UNHANDLED", "", l, Nil, running[l]) : l \in {k \in Leaves : running[k] # Absent /\ At(k) = {}}}
NotApplied == {Msg("NOT_APPLIED", Ruler(l).o, l, Ruler(l).v, IF running[l] = Absent THEN Nil ELSE running[l]) :
                  l \in {k \in Leaves : At(k) # {} /\ running[k] # Ruler(k).v}}
Overruled == {Msg("OVERRULED", x.o, x.l, x.v, Ruler(x.l).v) :
                  x \in {y \in intended : y # Ruler(y.l) /\ y.v # Ruler(y.l).v}}
Expected == Unhandled \cup NotApplied \cup Overruled

\* all store contents of the configuration: every owner defines each leaf with one of its values or not at all
OwnerChoice == [Leaves -> [Owners -> UNION {Vals[l] : l \in Leaves} \cup {Absent}]]
StoreOf(f) == {[o |-> o, p |-> PrioOf[o], l |-> l, v |-> f[l][o]] : o \in Owners, l \in Leaves} 
GoodChoice(f) == \A l \in Leaves : \A o \in Owners : f[l][o] \in Vals[l] \cup {Absent}

Init == /\ \E f \in OwnerChoice : GoodChoice(f) /\ intended = {x \in StoreOf(f) : x.v # Absent}
        /\ running \in [Leaves -> UNION {Vals[l] : l \in Leaves} \cup {Absent}]
        /\ \A l \in Leaves : running[l] \in Vals[l] \cup {Absent}
        /\ msgs = [done |-> FALSE, set |-> {}]
Cycle == ~msgs.done /\ msgs' = [done |-> TRUE, set |-> Expected] /\ UNCHANGED <<intended, running>>
Next == Cycle
Spec == Init /\ [][Next]_vars

\* C15: a path is reported iff it deviates; paths on which running and all intents agree are silent
Agreeing(l) == running[l] # Absent /\ At(l) # {} /\ \A x \in At(l) : x.v = running[l]
SilentWhenAgreeing == msgs.done => \A m \in msgs.set : ~Agreeing(m.l)
ReportedIffDeviates == msgs.done => \A l \in Leaves :
    (\E m \in msgs.set : m.l = l) <=> ~(Agreeing(l) \/ (running[l] = Absent /\ At(l) = {}))
OneNotAppliedPerPath == msgs.done => \A m, n \in msgs.set : (m.reason = "NOT_APPLIED" /\ n.reason = "NOT_APPLIED" /\ m.l = n.l) => m = n
=============================================================================
