SPECIFICATION TSpec
CONSTANTS
  Entries = {}
  Nodes = {}
  PathShapes = {}
  KeyShapes = {}
  ValKinds = {}
  ListNodes = {}
  MultiKeyNodes = {}
  ValuelessEntries = {}
  TextEntries = {}
  TextVals = {}
POSTCONDITION Accepted
CHECK_DEADLOCK FALSE
