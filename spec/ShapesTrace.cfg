SPECIFICATION TSpec
CONSTANTS
  Entries = {}
  Nodes = {}
  PathShapes = {}
  KeyShapes = {}
  ValKinds = {}
  ListNodes = {}
  MultiKeyNodes = {}
  ValuelessEntries = {}
  TextEntries = {}
  TextVals = {}
  MultiEntries = {}
  CompoundPaths = {}
  KeylessPaths = {}
POSTCONDITION Accepted
CHECK_DEADLOCK FALSE
