"""C12: values survive every conversion unchanged.
 (1) TLC checks Values.tla (one leaf of every YANG built-in type; Supply / Report / Withdraw in every input form)
     and prints every transition of its state graph;
 (2) the transitions are chained into walks (quick: a covering selection, thorough: every transition) and each step is
     executed on the real Datastore: TransactionSet+Confirm, the sync path, NETCONF XML transformation; after every step
     every output form is observed (device change in proto / gNMI / JSON / JSON_IETF / XML x 8, full views, both
     stores, GetData in four encodings on MAIN and INTENDED, string form, EqualTypedValues on stored values);
 (3) TLC validates the recorded steps against ValuesTrace.tla."""
import collections, json, os, random, re, shutil, time
import vlib
from vlib import log, Inconclusive

EDGE = re.compile(r'^<<"EDGE", "(.*)">>$')
ABSENT = "absent"
ASSUME = [
    "the datum denoted by an output is decided by the canonicaliser of harness/uni (LexDatum / Datum / DecodeJSON / DecodeXML): trusted base",
    "valid input forms: native typed value, canonical string, plain JSON document (numbers for integers, strings for decimal64), RFC 7951 JSON_IETF document, for devices: typed / string / gNMI typed / gNMI json_ietf / NETCONF XML text; other spellings (alternative lexical forms, minimal-precision decimals, JSON numbers for decimal64, JSON values at a leaf path, module-qualified names, ascii) may be refused but must not be altered when accepted",
    "leaf-lists are compared as multisets (ordered-by system)",
    "values reach the running store through the real sync loop (1 writer); a report is observed once the store shows the value or after 400 ms",
]
MAXLEN = 40


def succ(iv, rv, op, d):
    """successor as MCValues.GNext chooses it (written iff the intent's value changes)"""
    if op == "supply":
        return (d, d if iv != d else rv)
    if op == "report":
        return (iv, d)
    return (ABSENT, ABSENT if iv != ABSENT else rv)


def design_and_edges():
    wd = vlib.scratch("val")
    try:
        vlib.spec_copy(wd)
        rc, out = vlib.tlc("MCValues.tla", "MCValues.cfg", wd, workers=8, timeout=900)
        m = None
        for m in vlib.TLC_STATS.finditer(out):
            pass
        if "No error has been found" not in out or m is None:
            raise Inconclusive("Values design check failed:\n" + out[-2500:])
        design = dict(states=int(m.group(2).replace(",", "")), transitions=int(m.group(1).replace(",", "")), module="MCValues.tla", cfg="MCValues.cfg")
        rc, out = vlib.tlc("MCValues.tla", "MCValuesGen.cfg", wd, workers=1, timeout=900)
        if "No error has been found" not in out:
            raise Inconclusive("Values generation failed:\n" + out[-2500:])
        edges = []
        for line in out.splitlines():
            mm = EDGE.match(line.strip())
            if mm:
                edges.append(json.loads(json.loads('"' + mm.group(1) + '"')))
        if not edges:
            raise Inconclusive("no transitions printed:\n" + out[-1500:])
        return design, edges
    finally:
        shutil.rmtree(wd, ignore_errors=True)


def key(e):
    return (e["leaf"], e["iv"], e["rv"], e["op"], e["d"], e["f"])


def select_quick(edges, rnd):
    """covering selection: every (op, d, f) from the empty state, every supply from an equal and from a different running
    value (with the intent equal / different), every report over an existing value"""
    by = collections.defaultdict(list)
    for e in edges:
        by[(e["leaf"], e["op"], e["d"], e["f"])].append(e)
    sel = []
    for (leaf, op, d, f), es in sorted(by.items()):
        def pick(pred):
            c = [e for e in es if pred(e)]
            if c:
                sel.append(rnd.choice(c))
        pick(lambda e: e["iv"] == ABSENT and e["rv"] == ABSENT)
        if op == "supply":
            pick(lambda e: e["iv"] == d and e["rv"] == d)
            pick(lambda e: e["rv"] not in (d, ABSENT) and e["iv"] == e["rv"])
            pick(lambda e: e["iv"] == d and e["rv"] not in (d, ABSENT))
            pick(lambda e: e["iv"] not in (d, ABSENT) and e["rv"] == d)
        elif op == "report":
            pick(lambda e: e["iv"] not in (ABSENT,) and e["rv"] == e["iv"] and e["rv"] != d)
            pick(lambda e: e["iv"] == d and e["rv"] == d)
        else:
            for e in es:
                if rnd.random() < 0.3:
                    sel.append(e)
    return sel


def walks(edges, selected, rnd):
    """chains of steps covering the selected transitions; navigation uses the canonical forms"""
    out = []
    todo = collections.defaultdict(lambda: collections.defaultdict(list))  # leaf -> state -> edges
    for e in selected:
        todo[e["leaf"]][(e["iv"], e["rv"])].append(e)
    vals = collections.defaultdict(set)
    for e in edges:
        if e["op"] == "supply":
            vals[e["leaf"]].add(e["d"])
    n = 0
    for leaf in sorted(todo):
        pend = todo[leaf]
        for st in pend:
            rnd.shuffle(pend[st])

        def nav(cur):
            """shortest canonical path from cur to a state with pending edges"""
            seen, q = {cur: None}, collections.deque([cur])
            while q:
                s = q.popleft()
                if pend.get(s):
                    path = []
                    while seen[s] is not None:
                        s, step = seen[s]
                        path.append(step)
                    return list(reversed(path))
                moves = [("supply", d, "typed") for d in sorted(vals[leaf])] + [("report", d, "dev_typed") for d in sorted(vals[leaf])]
                moves.append(("withdraw", "", "-"))
                for (op, d, f) in moves:
                    t = succ(s[0], s[1], op, d)
                    if t not in seen:
                        seen[t] = (s, dict(op=op, d=d, f=f))
                        q.append(t)
            return None
        while any(pend.values()):
            cur, steps = (ABSENT, ABSENT), []
            while len(steps) < MAXLEN:
                if pend.get(cur):
                    e = pend[cur].pop()
                    steps.append(dict(op=e["op"], d=e["d"], f=e["f"]))
                    cur = succ(cur[0], cur[1], e["op"], e["d"])
                    continue
                p = nav(cur)
                if p is None or len(steps) + len(p) >= MAXLEN:
                    break
                for s in p:
                    steps.append(s)
                    cur = succ(cur[0], cur[1], s["op"], s["d"])
            if not steps:
                break
            n += 1
            out.append(dict(id="w%d" % n, leaf=leaf, steps=steps))
    return out


def run_part(vh, behs, out, wd, tag):
    """one harness process per run; a crash (panic in a server goroutine) is attributed to the step that had begun,
    recorded as a step with ret=panic, and the run continues with the next behaviour"""
    todo, crashes, n = list(behs), 0, 0
    steps = {b["id"]: b for b in behs}
    with open(out, "w") as fo:
        while todo:
            n += 1
            bf, tf = os.path.join(wd, "%s-%d.in" % (tag, n)), os.path.join(wd, "%s-%d.out" % (tag, n))
            with open(bf, "w") as fh:
                for b in todo:
                    fh.write(json.dumps(b, sort_keys=True) + "\n")
            rc, outp = vlib.run([vh, "values", "-in", bf, "-out", tf], env=dict(TMPDIR=wd), timeout=3000)
            evs = vlib.read_ndjson(tf) if os.path.exists(tf) else []
            begun = None
            for e in evs:
                if e["ev"] == "begin":
                    begun = e
                else:
                    begun = None
                    fo.write(json.dumps(e) + "\n")
            if rc == 0:
                break
            if begun is None:
                raise Inconclusive("vh values failed outside a step:\n" + outp[-3000:])
            crashes += 1
            if crashes > 400:
                raise Inconclusive("too many harness crashes")
            b = steps[begun["b"]]
            st = b["steps"][begun["i"]]
            stack = [x.strip() for x in outp.splitlines() if x.startswith("panic:") or "/repo/pkg" in x]
            fo.write(json.dumps(dict(ev="val", b=b["id"], i=begun["i"], leaf=b["leaf"], op=st["op"], d=st["d"], f=st["f"], ret="panic",
                                     errmsg=" | ".join(stack[:6])[:600], input="", written=False, changed=False, deleted=False, obs=[], obserr=[], eq=[], variant=[])) + "\n")
            idx = [i for i, x in enumerate(todo) if x["id"] == b["id"]][0]
            todo = todo[idx + 1:]
    return crashes


def run_values(vh, behs, trace, wd):
    import concurrent.futures
    n = 12 if len(behs) > 24 else 1
    parts = [behs[i::n] for i in range(n)]
    outs = [os.path.join(wd, "part%d.ndjson" % i) for i in range(n)]
    with concurrent.futures.ThreadPoolExecutor(n) as ex:
        crashes = sum(ex.map(lambda i: run_part(vh, parts[i], outs[i], wd, "p%d" % i), range(n)))
    with open(trace, "w") as fo:
        for o in outs:
            with open(o) as fi:
                shutil.copyfileobj(fi, fo)
    return crashes


# ---- known-finding witnesses: (clause, event) -> bool ----
def _type(e):
    return e["leaf"]


WITNESS = {}


def witness(name):
    def deco(fn):
        WITNESS[name] = fn
        return fn
    return deco


@witness("gnmi_typed_decimal_empty")
def w_gnmi(clause, e):
    """ToGNMITypedValue has no case for DecimalVal / EmptyVal: the gNMI proto encoding sends no value"""
    return clause == "Same:dev.gnmi" and any(v[0] == "dev.proto" and v[1] in ("DecimalVal", "EmptyVal") for v in e["variant"])


def check(prop, tier, seed, replay):
    t0 = time.time()
    vh = vlib.build_harness()
    rnd = random.Random(seed)
    wd = vlib.scratch("c12")
    try:
        if replay is None:
            design, edges = design_and_edges()
            selected = edges if tier == "thorough" else select_quick(edges, rnd)
            behs = walks(edges, selected, rnd)
            log("Values.tla: %d states, %d transitions; %d selected, %d walks, %d steps" % (design["states"], len(edges), len(selected), len(behs), sum(len(b["steps"]) for b in behs)))
        else:
            design, edges, selected = None, [], []
            with open(replay) as fh:
                behs = [json.load(fh)["behaviour"]]
        trace = os.path.join(wd, "trace.ndjson")
        crashes = run_values(vh, behs, trace, wd)
        events = vlib.read_ndjson(trace)
        log("executed %d steps on the real code (%d process crashes)" % (len(events), crashes))
        verdict = vlib.tlc_trace("ValuesTrace.tla", "ValuesTrace.cfg", trace, timeout=3000)
        if os.environ.get("VERIF_KEEP"):
            os.makedirs(os.environ["VERIF_KEEP"], exist_ok=True)
            shutil.copy(trace, os.path.join(os.environ["VERIF_KEEP"], "trace.ndjson"))
            with open(os.path.join(os.environ["VERIF_KEEP"], "verdict.json"), "w") as fh:
                json.dump(verdict, fh)
    finally:
        shutil.rmtree(wd, ignore_errors=True)
    log("steps=%d failed clauses: %s nt=%s" % (verdict["total"], dict(collections.Counter(b[1] for b in verdict["bad"]).most_common(40)), verdict["nt"]))
    known = [k for k in vlib.load_known() if k["property"] == "C12"]
    byid = {b["id"]: b for b in behs}
    violations, knownhits, harness = [], {}, []
    for (p, clause, line) in verdict["bad"]:
        e = events[line - 1]
        if p == "M":
            harness.append((clause, e))
            continue
        hit = None
        for k in known:
            if WITNESS.get(k["witness"], lambda c, e: False)(clause, e):
                hit = k
                break
        if hit:
            knownhits.setdefault(hit["id"], [hit, 0])[1] += 1
        else:
            violations.append((clause, e))
    if harness:
        raise Inconclusive("harness did not observe every output form: %s" % [(c, e["b"], e["i"], sorted(o[0] for o in e["obs"])) for c, e in harness[:3]])
    nt = verdict["nt"]
    covered = collections.Counter((e["leaf"], e["op"], e["f"]) for e in events)
    cov = dict(states=design["states"] if design else 1, transitions=len(edges) if edges else 1,
               traces_validated_against_impl=len(behs), evaluations=len(events),
               distinct_nontrivial=nt["noop"] + nt["written"],
               inputs=len(events), distinct_inputs=len(set((e["leaf"], e["op"], e["d"], e["f"]) for e in events)),
               rule="every transition of Values.tla (27 leaves: every built-in type incl. uint64 > 2^63, decimal64 with 1/2/18 fraction digits, empty, identityref, unions, enumerations, bits, binary, leaf-lists) x 11 client forms x 8 device forms; thorough executes every transition, quick a covering selection (every (datum, form) from the empty state, over an equal and over a different value); non-trivial = accepted supplies that were a no-op over an equal datum or a write over a different one (counted by the trace spec)",
               transitions_selected=len(selected), transitions_total=len(edges),
               leaf_op_form_combinations=len(covered), counters=nt,
               samples=[dict(walk=behs[0])] + [dict(step={k: events[1][k] for k in ("leaf", "op", "d", "f", "ret", "changed", "obs")})] if len(events) > 1 else [dict(walk=behs[0])],
               design_models=[design] if design else [], known_findings_hit={k: v[1] for k, v in knownhits.items()}, exhaustive=(tier == "thorough"))
    for kid, (k, n) in sorted(knownhits.items()):
        print("KNOWN-FINDING: property=C12 %s (%s; %d steps)" % (k["what"], kid, n))
    rc, seen = 0, set()
    for (clause, e) in violations:
        sig = (clause, e["leaf"].split("-")[0], e["f"])
        if sig in seen:
            continue
        seen.add(sig)
        b = byid[e["b"]]
        beh = dict(id=b["id"], leaf=b["leaf"], steps=b["steps"][:e["i"] + 1])
        path = vlib.save_replay("C12", clause.replace(":", "_").replace(".", "_"), beh,
                                dict(clause=clause, step=e["i"], d=e["d"], f=e["f"], ret=e["ret"], errmsg=e["errmsg"], input=e["input"],
                                     differing=[o for o in e["obs"] if o[1] != e["d"]], obserr=e["obserr"]))
        print("VIOLATION property=C12 replay=%s" % path)
        log("  clause %s: %s %s d=%s f=%s ret=%s %s differing=%s" % (clause, e["leaf"], e["op"], e["d"], e["f"], e["ret"], e["errmsg"][:100], [o for o in e["obs"] if o[1] != e["d"]][:4]))
        rc = 1
        if len(seen) >= 40:
            break
    if rc == 0 and replay is None and (nt["noop"] < 10 or nt["written"] < 10):
        raise Inconclusive("vacuous run: %s" % nt)
    vlib.write_evidence("C12", tier, seed, "model_checking", cov, ASSUME, len(violations), time.time() - t0)
    return rc
