"""C20: no request or device message crashes the server.
 (1) TLC checks the one-step machine of Shapes.tla (every call is answered with a response or an error) and
     enumerates the applicable shapes: entry point x node kind x path shape x key shape x value kind;
 (2) every shape (thorough) or a stratified sample (quick) is instantiated against the verification schema and sent
     through the real entry point: TransactionSet (dry run and apply+cancel), Datastore.Get in every encoding on both
     datastores, the sync path, the NETCONF XML adapter, the JSON and XML tree importers; plus the string level:
     every string up to a length over the path alphabet through ParsePath and friends;
 (3) TLC validates the outcomes against ShapesTrace.tla: a panic (in the handler or in any server goroutine: the
     process dies) or a hang is a violation;
 (4) transaction histories (the regression corpus of the intents engine and TLC-generated histories of the validity,
     presence, choice and multi-key families) are replayed only to see the server survive them: a panic in a
     validation goroutine several transactions into a history is a crash caused by a request all the same."""
import collections, concurrent.futures, json, os, random, re, shutil, time
import vlib
from vlib import log, Inconclusive

LINE = re.compile(r'^<<"SHAPES", "(.*)">>$', re.M)
ASSUME = [
    "protobuf-valid inputs only: no nil elements inside repeated fields, no nil sub-messages inside a set oneof",
    "a call that does not return within 20 s (context deadline 8 s) is a hang",
    "a panic in a goroutine of the server kills the harness process; it is attributed to the shape whose begin marker was the last one written",
    "pkg/server wrappers are not constructed; the Datastore methods they call directly are the entry points",
]
BATCH = 400
ALPHABET = ["a", "/", "[", "]", "=", ":", "\\", " ", "."]


def shapes(tier):
    wd = vlib.scratch("shapes")
    try:
        vlib.spec_copy(wd)
        rc, out = vlib.tlc("MCShapes.tla", "MCShapesLive.cfg", wd, workers=4, timeout=600)
        m = None
        for m in vlib.TLC_STATS.finditer(out):
            pass
        if "No error has been found" not in out or m is None:
            raise Inconclusive("Shapes design check failed:\n" + out[-2500:])
        design = dict(states=int(m.group(2).replace(",", "")), transitions=int(m.group(1).replace(",", "")), module="MCShapes.tla", cfg="MCShapesLive.cfg")
        rc, out = vlib.tlc("MCShapes.tla", "MCShapes.cfg", wd, workers=4, timeout=900)
        mm = LINE.search(out)
        if "No error has been found" not in out or not mm:
            raise Inconclusive("no shapes emitted:\n" + out[-1500:])
        return design, [tuple(x) for x in json.loads(json.loads('"' + mm.group(1) + '"'))]
    finally:
        shutil.rmtree(wd, ignore_errors=True)


def sample(all_shapes, rnd, n):
    """stratified: every (entry, dimension value) pair is hit, then random fill"""
    sel, seen = [], set()
    by = collections.defaultdict(list)
    for s in all_shapes:
        for dim in (1, 2, 3, 4):
            by[(s[0], dim, s[dim])].append(s)
    for k in sorted(by):
        for s in rnd.sample(by[k], min(6, len(by[k]))):
            if s not in seen:
                seen.add(s)
                sel.append(s)
    # the few compound / absent path shapes always run
    for s in all_shapes:
        if s[2] in ("absent", "plus_keyless_before", "plus_keyless_after") and s not in seen:
            seen.add(s)
            sel.append(s)
    rest = [s for s in all_shapes if s not in seen]
    rnd.shuffle(rest)
    return sel + rest[:max(0, n - len(sel))]


def run_part(vh, batches, out, wd, tag):
    todo = [dict(b, shapes=list(b["shapes"])) for b in batches]
    crashes, n = 0, 0
    with open(out, "w") as fo:
        while todo:
            n += 1
            bf, tf = os.path.join(wd, "%s-%d.in" % (tag, n)), os.path.join(wd, "%s-%d.out" % (tag, n))
            with open(bf, "w") as fh:
                for b in todo:
                    fh.write(json.dumps({k: v for k, v in b.items() if k != "base"}) + "\n")
            rc, outp = vlib.run([vh, "shapes", "-in", bf, "-out", tf], env=dict(TMPDIR=wd), timeout=6000)
            evs = vlib.read_ndjson(tf) if os.path.exists(tf) else []
            begun, lastb, lasti = None, None, -1
            for e in evs:
                if e["ev"] == "begin":
                    begun = e
                else:
                    begun = None
                    lastb, lasti = e["b"], e.get("i", -1)
                    fo.write(json.dumps(e) + "\n")
            if rc == 0:
                break
            crashes += 1
            if crashes > 3000:
                raise Inconclusive("too many harness crashes")
            if begun is not None:
                stack = [x.strip() for x in outp.splitlines() if x.startswith("panic:") or x.startswith("fatal error:") or "/repo/pkg" in x]
                fo.write(json.dumps(dict(ev="shape", b=begun["b"], i=begun["i"], s=begun["s"], outcome="panic", detail=("process died: " + " | ".join(stack[:5]))[:400], ms=0)) + "\n")
                lastb, lasti = begun["b"], begun["i"]
            elif lastb is None:
                raise Inconclusive("vh shapes failed before any shape:\n" + outp[-3000:])
            # continue behind the last shape that was handled (a hang ends the process too)
            idx = [k for k, b in enumerate(todo) if b["id"] == lastb][0]
            todo = todo[idx:]
            todo[0]["shapes"] = todo[0]["shapes"][lasti + 1:]
            todo[0]["id"] = todo[0]["id"] + "'"
            if not todo[0]["shapes"]:
                todo = todo[1:]
    return crashes


def survive(vh, behs, wd):
    """Replay transaction histories (behaviours of the intents engine) only to see the server survive them.
    Returns (number replayed, [(behaviour, panic text)]).  All in one process first; if that dies (the trace file is
    buffered, so it does not tell where) every history runs in a process of its own."""
    def one(k, bs):
        bf, tf = os.path.join(wd, "hist%s.ndjson" % k), os.path.join(wd, "histtrace%s.ndjson" % k)
        with open(bf, "w") as fh:
            for b in bs:
                fh.write(json.dumps(b, sort_keys=True) + "\n")
        return vlib.run([vh, "intents", "-in", bf, "-out", tf], env=dict(TMPDIR=wd), timeout=3000)
    rc, outp = one("all", behs)
    if rc == 0:
        return len(behs), []
    if "panic:" not in outp and "fatal error:" not in outp:
        raise Inconclusive("harness intents failed without a panic:\n" + outp[-2000:])
    died = []
    with concurrent.futures.ThreadPoolExecutor(12) as ex:
        for b, (rc1, out1) in zip(behs, ex.map(lambda kb: one("-%d" % kb[0], [kb[1]]), enumerate(behs))):
            if rc1 != 0 and ("panic:" in out1 or "fatal error:" in out1):
                stack = [x.strip() for x in out1.splitlines() if x.startswith("panic:") or x.startswith("fatal error:") or "/repo/pkg" in x]
                died.append((b, " | ".join(stack[:6])[:500]))
            elif rc1 != 0:
                raise Inconclusive("harness intents failed on %s:\n%s" % (b["id"], out1[-1500:]))
    if not died:
        raise Inconclusive("the harness died but no single history reproduces it:\n" + outp[-2000:])
    return len(behs), died[:20]


def histories(tier, seed):
    import eng_intents
    behs = eng_intents.regress()
    plans = [("IntentsGen_valid.cfg", 40, 6), ("IntentsGen_pres.cfg", 40, 6), ("IntentsGen_choice2.cfg", 30, 6), ("IntentsGen_mkey.cfg", 30, 6)]
    if tier == "thorough":
        plans = [(c, n * 6, d) for (c, n, d) in plans] + [("IntentsGen_cross.cfg", 150, 6), ("IntentsGen_dense.cfg", 100, 6), ("IntentsGen_ns.cfg", 100, 6)]
    for (cfg, num, steps) in plans:
        raw = vlib.tlc_generate("IntentsGen.tla", cfg, num, steps * 9 + 10, seed, steps)
        fam = cfg[len("IntentsGen_"):-4]
        for k, r in enumerate(raw):
            b = eng_intents.convert(r, "hist-%s-s%d-%d" % (fam, seed, k), eng_intents.GAMMAS[(seed + k) % len(eng_intents.GAMMAS)])
            for st in b["steps"]:
                st.pop("rescfg", None)
            behs.append(b)
    return eng_intents.dedup(behs)


def check(prop, tier, seed, replay):
    t0 = time.time()
    vh = vlib.build_harness()
    if replay is not None:
        with open(replay) as fh:
            rb = json.load(fh)["behaviour"]
        if "steps" in rb:
            wd = vlib.scratch("c20")
            try:
                n, died = survive(vh, [rb], wd)
            finally:
                shutil.rmtree(wd, ignore_errors=True)
            for (b, stack) in died:
                print("VIOLATION property=C20 replay=%s" % replay)
                log("  NoPanicInHistory %s: %s" % (b["id"], stack[:300]))
            return 1 if died else 0
    rnd = random.Random(seed)
    wd = vlib.scratch("c20")
    try:
        if replay is None:
            design, all_shapes = shapes(tier)
            sel = all_shapes if tier == "thorough" else sample(all_shapes, rnd, 60000)
            rnd.shuffle(sel)
            log("Shapes.tla: %d applicable shapes; %d selected" % (len(all_shapes), len(sel)))
        else:
            design, all_shapes = None, []
            with open(replay) as fh:
                sel = [tuple(json.load(fh)["behaviour"]["shape"])]
        batches = [dict(id="b%d" % k, shapes=sel[k * BATCH:(k + 1) * BATCH]) for k in range((len(sel) + BATCH - 1) // BATCH)]
        if replay is None:
            batches.append(dict(id="strings", shapes=[], alphabet=ALPHABET, maxlen=6 if tier == "quick" else 7))
        nproc = 12 if len(batches) >= 12 else max(1, len(batches))
        parts = [batches[i::nproc] for i in range(nproc)]
        outs = [os.path.join(wd, "part%d.ndjson" % i) for i in range(nproc)]
        with concurrent.futures.ThreadPoolExecutor(nproc) as ex:
            crashes = sum(ex.map(lambda i: run_part(vh, parts[i], outs[i], wd, "p%d" % i), range(nproc)))
        trace = os.path.join(wd, "trace.ndjson")
        with open(trace, "w") as fo:
            for o in outs:
                with open(o) as fi:
                    shutil.copyfileobj(fi, fo)
        events = vlib.read_ndjson(trace)
        log("executed %d shapes on the real code (%d process exits)" % (len(events), crashes))
        strings_ev = [e for e in events if e["ev"] == "strings"]
        if len(events) - len(strings_ev) < len(sel):
            raise Inconclusive("only %d of %d shapes were executed" % (len(events), len(sel)))
        verdict = vlib.tlc_trace("ShapesTrace.tla", "ShapesTrace.cfg", trace, timeout=3000)
        nhist, died = (0, [])
        if replay is None:
            hb = histories(tier, seed)
            nhist, died = survive(vh, hb, wd)
            log("%d transaction histories replayed for survival, %d killed the server" % (nhist, len(died)))
        if os.environ.get("VERIF_KEEP"):
            os.makedirs(os.environ["VERIF_KEEP"], exist_ok=True)
            shutil.copy(trace, os.path.join(os.environ["VERIF_KEEP"], "trace.ndjson"))
    finally:
        shutil.rmtree(wd, ignore_errors=True)
    nt = verdict["nt"]
    log("calls=%d failed: %s nt=%s" % (verdict["total"], dict(collections.Counter(b[1] for b in verdict["bad"])), nt))
    groups = collections.OrderedDict()
    for (p, clause, line) in verdict["bad"]:
        e = events[line - 1]
        if e["ev"] == "strings":
            groups.setdefault((clause, "strings", ""), []).append(dict(e, s=["strings", "-", "-", "-", "-"], outcome="panic", detail="; ".join(e["panics"][:3]) + e["hang"]))
            continue
        site = re.sub(r"0x[0-9a-f]+", "", e["detail"])[:160]
        groups.setdefault((clause, e["s"][0], site), []).append(e)
    for (p, clause, line) in verdict["bad"]:
        if p == "M":
            raise Inconclusive("the harness did not enumerate all strings: %s" % events[line - 1])
    shape_events = [e for e in events if e["ev"] == "shape"]
    covered = collections.Counter(e["s"][0] for e in shape_events)
    cov = dict(states=design["states"] if design else 1, transitions=design["transitions"] if design else 1, traces_validated_against_impl=len(events),
               evaluations=len(events), strings_parsed=nt["strings"], distinct_nontrivial=len(set(tuple(e["s"]) for e in shape_events if e["s"][2] != "exact" or e["s"][3] != "ok" or e["s"][4] not in ("string",))),
               rule="applicable shapes of Shapes.tla (entry x 43 node kinds x 11 path shapes x 7 key shapes x 43 value kinds); thorough: all, quick: every (entry, dimension value) pair at least 6 times + random fill; non-trivial = at least one dimension is bent (not the exact path with correct keys and a plain string)",
               shapes_total=len(all_shapes), shapes_run=len(shape_events), per_entry=dict(covered), counters=nt, process_exits=crashes,
               samples=[dict(shape=e["s"], outcome=e["outcome"], detail=e["detail"][:120]) for e in shape_events[:4]] + [dict(strings=dict(alphabet=e["alphabet"], maxlen=e["maxlen"], count=e["count"], parsed=e["parsed"])) for e in strings_ev],
               design_models=[design] if design else [], exhaustive=(tier == "thorough"))
    rc = 0
    cov["histories_survived"] = nhist - len(died)
    for (b, stack) in died:
        path = vlib.save_replay("C20", "NoPanicInHistory", b, dict(clause="NoPanicInHistory", detail=stack))
        print("VIOLATION property=C20 replay=%s" % path)
        log("  NoPanicInHistory %s: %s" % (b["id"], stack[:300]))
        rc = 1
    for (clause, entry, site), es in list(groups.items())[:40]:
        e = es[0]
        path = vlib.save_replay("C20", clause + "-" + entry, dict(shape=e["s"]), dict(clause=clause, outcome=e["outcome"], detail=e["detail"], similar=len(es)))
        print("VIOLATION property=C20 replay=%s" % path)
        log("  %s %s x%d: %s %s" % (clause, entry, len(es), e["s"], e["detail"][:200]))
        rc = 1
    if rc == 0 and replay is None and (nt["responses"] < 100 or nt["errors"] < 100):
        raise Inconclusive("vacuous run: %s" % nt)
    vlib.write_evidence("C20", tier, seed, "fault_enumeration", cov, ASSUME, len(verdict["bad"]) + len(died), time.time() - t0)
    return rc
