"""C13: the running datastore mirrors the device after sync.
 (1) TLC checks Mirror on Sync.tla (main loop, semaphore, writers, prune index) for W in {1,2} on fixed streams;
 (2) TLC samples notification streams (SyncGen.tla); the production Sync loop + storeSyncMsg consume them from a
     scripted harness target with 1, 2 and 16 write workers, sync validation on/off, several chunkings and random
     completion orders of the concurrent cache writes;
 (3) the linearised cache calls and the stores at quiescence are validated by TLC against SyncSem (SyncTrace.tla)."""
import json, os, random, re, shutil, time
import vlib
from vlib import log, Inconclusive

LINE = re.compile(r'^<<"SYNCSTREAMS", "(.*)">>$')
GAMMAS = ["g1", "g0", "g2", "g3"]
ASSUME = [
    "the device's stream is scripted by a harness target (verif factory hook) feeding the production Sync loop; quiescence = stream consumed, no cache call in flight and none for 80 ms",
    "concurrent cache Modify calls are linearised by the harness decorator (random delay before each call) - the order among writers is arbitrary, inside one call the cache is atomic",
    "a cycle's start always uses force=false after the first one; cycles are properly bracketed",
]


def leaves_of(m, under):
    s = {q[0] for q in m.get("upd", [])}
    for d in m.get("del", []):
        s |= set(under.get(d, []))
    return s


def overlapping_in_flight(script, under):
    """two notifications that can be in flight together (no start/end between them, W >= 2) touch a common leaf"""
    if script["workers"] < 2:
        return False
    msgs = script["msgs"]
    for i in range(len(msgs)):
        if msgs[i]["kind"] != "notif":
            continue
        # the semaphore bounds how many are in flight, not how far apart they are: a slow writer of notification i is
        # still running while any number of later ones start and finish, up to the next start / end marker (barrier)
        for j in range(i + 1, len(msgs)):
            if msgs[j]["kind"] != "notif":
                break
            if leaves_of(msgs[i], under) & leaves_of(msgs[j], under):
                return True
    return False


def gen_streams(seed):
    wd = vlib.scratch("syncgen")
    try:
        vlib.spec_copy(wd)
        rc, out = vlib.tlc("SyncGen.tla", "SyncGen.cfg", wd, workers=1, timeout=300, extra=["-seed", str(seed)])
        for line in out.splitlines():
            mm = LINE.match(line.strip())
            if mm:
                return json.loads(json.loads('"' + mm.group(1) + '"'))
        raise Inconclusive("no streams:\n" + out[-1500:])
    finally:
        shutil.rmtree(wd, ignore_errors=True)


def design():
    wd = vlib.scratch("syncmc")
    tot = dict(states=0, transitions=0, module="MCSync.tla", cfg="StreamA x W in {1,2} (Barrier)")
    try:
        vlib.spec_copy(wd)
        base = open(os.path.join(wd, "MCSync.cfg")).read()
        for w in (1, 2):
            with open(os.path.join(wd, "s.cfg"), "w") as fh:
                fh.write(base.replace("W = 2", "W = %d" % w))
            rc, out = vlib.tlc("MCSync.tla", "s.cfg", wd, workers=8, timeout=300)
            m = None
            for m in vlib.TLC_STATS.finditer(out):
                pass
            if "No error has been found" not in out or m is None:
                raise Inconclusive("Sync design check failed (W=%d):\n%s" % (w, out[-2000:]))
            tot["states"] += int(m.group(2).replace(",", ""))
            tot["transitions"] += int(m.group(1).replace(",", ""))
        return tot
    finally:
        shutil.rmtree(wd, ignore_errors=True)


def chunk(msgs, rnd):
    """re-chunk: split the updates of a notification over two notifications (same logical update set)"""
    out = []
    for m in msgs:
        if m["kind"] == "notif" and len(m["upd"]) >= 2 and not m["del"] and rnd.random() < 0.5:
            k = rnd.randrange(1, len(m["upd"]))
            out.append(dict(kind="notif", del_=[], upd=m["upd"][:k]))
            out.append(dict(kind="notif", del_=[], upd=m["upd"][k:]))
        else:
            out.append(dict(kind=m["kind"], del_=m.get("del", []), upd=m.get("upd", [])))
    return [dict(kind=x["kind"], **({"del": x["del_"], "upd": x["upd"]} if x["kind"] == "notif" else {})) for x in out]


def check(prop, tier, seed, replay):
    t0 = time.time()
    vh = vlib.build_harness()
    uni = json.load(open(os.path.join(vlib.VERIF, "schema", "universe.json")))
    # structural containment table for the witness (same as UUnder)
    import importlib.util
    spec = importlib.util.spec_from_file_location("gen_universe", os.path.join(vlib.VERIF, "bin", "gen_universe.py"))
    gu = importlib.util.module_from_spec(spec)
    spec.loader.exec_module(gu)
    under = {n["id"]: [l["id"] for l in gu.LEAVES if gu.under(l, n, gu.GAMMAS["g0"])] for n in gu.NODES}
    wd = vlib.scratch("c13")
    rnd = random.Random(seed)
    try:
        if replay is None:
            d = design()
            log("Sync.tla: %d states" % d["states"])
            scripts = []
            rounds = 3 if tier == "quick" else 10
            for r in range(rounds):
                for k, s in enumerate(gen_streams(seed * 50 + r)):
                    msgs = [dict(kind=m["kind"], **({"del": sorted(m["del"]), "upd": sorted([list(q) for q in m["upd"]])} if m["kind"] == "notif" else {})) for m in s["msgs"]]
                    for m in msgs:
                        # the deletes of one notification in any order (state paths before and after config paths)
                        if m["kind"] == "notif" and len(m["del"]) > 1:
                            rnd.shuffle(m["del"])
                    first = True
                    for m in msgs:
                        if m["kind"] == "start":
                            m["force"] = first
                            first = False
                    for (w, val) in ((1, True), (2, True), (16, False), (2, False)) if tier == "quick" else ((1, True), (1, False), (2, True), (2, False), (16, True), (16, False)):
                        mm = chunk(msgs, rnd) if rnd.random() < 0.4 else msgs
                        scripts.append(dict(id="sy-%d-%d-w%d-%s" % (r, k, w, "v" if val else "n"), gamma=GAMMAS[(seed + k) % 4], workers=w, validate=val,
                                            seed=rnd.randrange(1 << 30), msgs=mm))
            # scripts that once revealed a defect are always replayed
            import glob
            for f in sorted(glob.glob(os.path.join(vlib.VERIF, "regress", "sync", "*.json"))):
                with open(f) as fh:
                    b = dict(json.load(fh)["behaviour"])
                b["id"] = "regress-" + os.path.basename(f)[:-5]
                scripts.append(b)
            log("%d scripts" % len(scripts))
        else:
            d = None
            with open(replay) as fh:
                scripts = [json.load(fh)["behaviour"]]
        import concurrent.futures
        nproc = min(8, max(1, len(scripts) // 4))
        parts = [scripts[i::nproc] for i in range(nproc)]

        def runpart(i):
            sf = os.path.join(wd, "s%d.ndjson" % i)
            with open(sf, "w") as fh:
                for s in parts[i]:
                    fh.write(json.dumps(s) + "\n")
            of = os.path.join(wd, "t%d.ndjson" % i)
            rc, out = vlib.run([vh, "sync", "-in", sf, "-out", of], env=dict(TMPDIR=wd), timeout=3000)
            if rc != 0:
                raise Inconclusive("vh sync failed:\n" + out[-3000:])
            return of
        with concurrent.futures.ThreadPoolExecutor(nproc) as ex:
            outs = list(ex.map(runpart, range(nproc)))
        trace = os.path.join(wd, "trace.ndjson")
        with open(trace, "w") as fo:
            for o in outs:
                with open(o) as fi:
                    shutil.copyfileobj(fi, fo)
        verdict = vlib.tlc_trace("SyncTrace.tla", "SyncTrace.cfg", trace, timeout=1800)
        events = vlib.read_ndjson(trace)
    finally:
        shutil.rmtree(wd, ignore_errors=True)
    import collections
    log("events=%d failed clauses: %s nt=%s" % (verdict["total"], dict(collections.Counter(b[0] + "." + b[1] for b in verdict["bad"])), verdict["nt"]))
    byid = {s["id"]: s for s in scripts}
    known = [k for k in vlib.load_known() if k["property"] == "C13"]
    violations, knownhits = [], {}
    for (p, clause, line) in verdict["bad"]:
        if p != "C13":
            continue
        e = events[line - 1]
        s = byid[e["b"]]
        hit = None
        for k in known:
            if k["witness"] == "overlapping_in_flight" and overlapping_in_flight(s, under):
                hit = k
        if hit:
            knownhits.setdefault(hit["id"], [hit, 0])[1] += 1
        else:
            violations.append((clause, e, s))
    nt = verdict["nt"]
    par = sum(1 for e in events if e["ev"] == "quiescent" and e.get("maxpar", 0) >= 2)
    cov = dict(states=d["states"] if d else 1, transitions=d["transitions"] if d else 1, traces_validated_against_impl=len(scripts),
               evaluations=len(scripts), distinct_nontrivial=par + nt["prefixdel"],
               rule="notification streams sampled by TLC from SyncGen (cycles, on-change updates/deletes, prefix related entries/leaves, state leaves), run with 1/2/16 write workers, validation on/off, re-chunked variants, random completion orders; non-trivial = at least two cache writes were in flight at once (%d scripts) or a delete hit a node with a prefix related sibling stored (%d deletes)" % (par, nt["prefixdel"]),
               samples=[dict(script=scripts[0])] + [dict(event=e) for e in events[1:4]],
               design_models=[d] if d else [], known_findings_hit={k: v[1] for k, v in knownhits.items()}, exhaustive=False)
    for kid, (k, n) in sorted(knownhits.items()):
        print("KNOWN-FINDING: property=C13 %s (%s; %d scripts)" % (k["what"], kid, n))
    rc, seen = 0, set()
    for (clause, e, s) in violations:
        if s["id"] in seen:
            continue
        seen.add(s["id"])
        path = vlib.save_replay("C13", clause, s, dict(clause=clause, config=e["config"], state=e["state"]))
        print("VIOLATION property=C13 replay=%s" % path)
        log("  clause %s script %s: observed config=%s state=%s" % (clause, s["id"], e["config"], e["state"]))
        rc = 1
        if len(seen) >= 5:
            break
    if rc == 0 and replay is None and (par < 2 or nt["prefixdel"] < 1):
        raise Inconclusive("vacuous run (parallel=%d prefixdel=%d)" % (par, nt["prefixdel"]))
    vlib.write_evidence("C13", tier, seed, "model_checking", cov, ASSUME, len(violations), time.time() - t0)
    return rc
