"""C17: validation verdicts do not depend on scheduling.
 (1) TLC checks ValConc.tla: with the code's discipline (look-up and creation of an on-demand child are separate
     critical sections, Atomic = FALSE) the verdicts of all interleavings of three validators equal the sequential
     ones (SameVerdicts), although a child can be created twice (NoLostInsert is refuted - recorded, not required by
     C17); with a check that observes the presence of an on-demand child SameVerdicts is refuted (the property is not
     vacuous on the model);
 (2) TLC enumerates validation scenarios (what the list entries carry x seeded defects); each is validated on the real
     Datastore sequentially (DisableConcurrency) and concurrently for several GOMAXPROCS and repetitions, every second
     repetition under a gate that holds a validator at the look-up miss of an on-demand child until a second one
     arrives (the adversarial schedule of the model); the harness binary is built with -race;
 (3) TLC validates that every concurrent verdict equals the sequential one (ValConcTrace.tla); data races reported by
     the race detector in pkg/tree are violations."""
import collections, json, os, random, re, shutil, time
import vlib
from vlib import log, Inconclusive

LINE = re.compile(r'^<<"SCEN", "(.*)">>$', re.M)
ASSUME = [
    "the race detector reports only races that occur in the executions it sees; reports whose stacks do not touch pkg/tree (e.g. the SBI connection state of Datastore) are listed in the evidence but are not C17",
    "verdict = the sorted error and warning strings of TransactionSetResponse plus the number of updates of the dry run",
    "defaults are loaded when an entry is created, so on-demand creation during validation is rare on this schema; the gate only acts where it happens (counted as 'paired')",
]


def model():
    wd = vlib.scratch("valconc")
    try:
        vlib.spec_copy(wd)
        res = {}
        for name, expect in (("asis", True), ("atomic", True), ("obs", False), ("lost", False)):
            rc, out = vlib.tlc("MCValConc.tla", "ValConc_%s.cfg" % name, wd, workers=4, timeout=600)
            ok = "No error has been found" in out
            viol = "is violated" in out
            if expect and not ok:
                raise Inconclusive("ValConc_%s: expected to hold:\n%s" % (name, out[-2500:]))
            if not expect and not viol:
                raise Inconclusive("ValConc_%s: expected a counterexample (the property would be vacuous):\n%s" % (name, out[-1500:]))
            m = None
            for m in vlib.TLC_STATS.finditer(out):
                pass
            res[name] = dict(holds=ok, states=int(m.group(2).replace(",", "")) if m else 0, transitions=int(m.group(1).replace(",", "")) if m else 0)
        rc, out = vlib.tlc("MCValConcScen.tla", "MCValConcScen.cfg", wd, workers=2, timeout=600)
        mm = LINE.search(out)
        if not mm:
            raise Inconclusive("no scenarios emitted:\n" + out[-1500:])
        return res, json.loads(json.loads('"' + mm.group(1) + '"'))
    finally:
        shutil.rmtree(wd, ignore_errors=True)


RACE = re.compile(r"WARNING: DATA RACE\n(.*?)\n==================", re.S)


def check(prop, tier, seed, replay):
    t0 = time.time()
    vh = vlib.build_harness(race=True)
    rnd = random.Random(seed)
    wd = vlib.scratch("c17")
    try:
        if replay is None:
            design, scen = model()
            scen.sort(key=lambda s: json.dumps(s, sort_keys=True))
            rich = [s for s in scen if len(s["feats"]) >= 5]
            pick = rnd.sample(rich, 18 if tier == "quick" else 120) + rnd.sample(scen, 8 if tier == "quick" else 60)
            behs = []
            for k, s in enumerate(pick):
                behs.append(dict(id="sc%d" % k, n=rnd.choice([6, 24, 48] if tier == "quick" else [6, 24, 96]), feats=sorted(s["feats"]), defects=sorted(s["defects"]),
                                 running=rnd.random() < 0.5, replace=False, reps=4 if tier == "quick" else 8, procs=[1, 2, 16]))
            # the replace flow: running is not preloaded, what the kept entries refer to is loaded on demand during validation
            for k, s in enumerate(rnd.sample([x for x in scen if "peer" in x["feats"]], 8 if tier == "quick" else 40)):
                behs.append(dict(id="rp%d" % k, n=rnd.choice([16, 40]), feats=sorted(set(s["feats"]) - {"gcheck", "dcheck", "gname"}), defects=sorted((set(s["defects"]) - {"dangling_peer"}) | {"range"} | ({"dangling_tref"} if k % 2 else set())),
                                 running=False, replace=True, reps=4 if tier == "quick" else 8, procs=[1, 2, 16]))
            log("ValConc.tla: %s; %d scenarios enumerated, %d selected" % ({k: v["holds"] for k, v in design.items()}, len(scen), len(behs)))
        else:
            design = None
            with open(replay) as fh:
                behs = [json.load(fh)["behaviour"]]
        trace = os.path.join(wd, "trace.ndjson")
        # the race detector needs the output of the process: run the parts by hand
        import concurrent.futures
        nproc = 6 if len(behs) > 6 else 1
        parts = [behs[i::nproc] for i in range(nproc)]

        def runpart(i):
            bf, tf = os.path.join(wd, "in%d" % i), os.path.join(wd, "out%d" % i)
            with open(bf, "w") as fh:
                for b in parts[i]:
                    fh.write(json.dumps(b) + "\n")
            rc, out = vlib.run([vh, "valconc", "-in", bf, "-out", tf], env=dict(TMPDIR=wd, GORACE="halt_on_error=0"), timeout=6000)
            if rc not in (0, 66):
                raise Inconclusive("vh-race valconc failed (%d):\n%s" % (rc, out[-3000:]))
            return tf, out
        with concurrent.futures.ThreadPoolExecutor(nproc) as ex:
            results = list(ex.map(runpart, range(nproc)))
        with open(trace, "w") as fo:
            for tf, _ in results:
                with open(tf) as fi:
                    shutil.copyfileobj(fi, fo)
        events = vlib.read_ndjson(trace)
        verdict = vlib.tlc_trace("ValConcTrace.tla", "ValConcTrace.cfg", trace, timeout=3000)
        races = []
        for _, out in results:
            for m in RACE.finditer(out):
                races.append(m.group(1))
    finally:
        shutil.rmtree(wd, ignore_errors=True)
    nt = verdict["nt"]
    tree_races, other = collections.OrderedDict(), collections.Counter()
    for r in races:
        frames = [x.strip() for x in r.splitlines() if x.strip().startswith("/repo/")]
        sig = " < ".join(f.split(" ")[0].replace("/repo/", "") for f in frames[:3])
        if any("/repo/pkg/tree/" in f for f in frames):
            tree_races.setdefault(sig, r)
        else:
            other[sig] += 1
    log("runs=%d failed clauses: %s nt=%s races: tree=%d other=%s" % (verdict["total"], dict(collections.Counter(b[1] for b in verdict["bad"])), nt, len(tree_races), dict(other)))
    byid = {b["id"]: b for b in behs}
    violations = []
    for (p, clause, line) in verdict["bad"]:
        e = events[line - 1]
        if p == "M":
            raise Inconclusive("harness: %s at %s %s" % (clause, e["b"], e["defects"]))
        violations.append((clause, e))
    cov = dict(states=sum(v["states"] for v in design.values()) if design else 1, transitions=sum(v["transitions"] for v in design.values()) if design else 1,
               traces_validated_against_impl=len(behs), evaluations=len(events), distinct_nontrivial=nt["witherrors"],
               rule="scenarios enumerated by TLC (subsets of 8 validation features x up to 3 seeded defects), sampled per seed; each validated sequentially once and concurrently for GOMAXPROCS in {1,2,16} x repetitions (every second one under the look-up-miss gate); non-trivial = scenarios whose verdict contains errors",
               runs=nt["runs"], gate_pairings=nt["paired"], child_overwrites=nt["overwrites"], design_models=design or {},
               races_in_tree=len(tree_races), races_elsewhere=dict(other),
               samples=[dict(scenario=behs[0])] + [dict(verdict=dict(errors=events[0]["errors"][:4], warnings=events[0]["warnings"][:2], updates=events[0]["updates"]))],
               exhaustive=False)
    rc, seen = 0, set()
    for (clause, e) in violations:
        if (clause, e["b"]) in seen:
            continue
        seen.add((clause, e["b"]))
        ref = [x for x in events if x["b"] == e["b"] and x["mode"] == "seq"][0]
        path = vlib.save_replay("C17", clause, byid[e["b"]], dict(clause=clause, procs=e["procs"], rep=e["rep"],
                                only_concurrent=sorted(set(e["errors"]) - set(ref["errors"]))[:10], only_sequential=sorted(set(ref["errors"]) - set(e["errors"]))[:10]))
        print("VIOLATION property=C17 replay=%s" % path)
        log("  clause %s: scenario %s procs=%d rep=%d" % (clause, e["b"], e["procs"], e["rep"]))
        rc = 1
        if len(seen) >= 6:
            break
    for sig, r in list(tree_races.items())[:6]:
        path = vlib.save_replay("C17", "NoRace", behs[0] if len(behs) == 1 else dict(id="all", note="run the check"), dict(clause="NoRace", frames=sig, report=r[:3000]))
        print("VIOLATION property=C17 replay=%s" % path)
        log("  data race in the tree: %s" % sig)
        rc = 1
    if rc == 0 and replay is None and (nt["witherrors"] < 3 or nt["runs"] < 50):
        raise Inconclusive("vacuous run: %s" % nt)
    vlib.write_evidence("C17", tier, seed, "model_checking", cov, ASSUME, len(violations) + len(tree_races), time.time() - t0)
    return rc
