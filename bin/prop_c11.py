"""C11: path representations are lossless and collision-free.
 (1) TLC checks the laws of Paths.tla (round trip, injectivity, prefix => ancestor) on the conventions for every path of
     the bounded universe (lists with 1, 2, 3 keys declared in non-alphabetical order, adversarial key values) and
     computes the pairs that collide under the joined index key;
 (2) every path goes through the real ToStrings / CompletePath / ToPath / ToXPath / ParsePath and through the merge
     tree (AddCacheUpdateRecursive + SdcpbPath); every use of the joined key is exercised on a real cache holding all
     the paths: tree.PathSet, IntendedPathExists / ReadRunningPath with the path absent and present,
     GetBranchesHighesPrecedence for every node;
 (3) TLC validates the recorded results against the laws (PathsTrace.tla)."""
import collections, json, os, re, shutil, time
import vlib
from vlib import log, Inconclusive

LINE = re.compile(r'^<<"PATHS", "(.*)">>$', re.M)
ASSUME = [
    "the verification schema (schema/yang/vf.yang): item[name], pair[zone app], triple[k3 k1 k2], plain containers with prefix related names",
    "key values with regular expression metacharacters are used for the conversions only: the cache library compiles every path element of a read as a regular expression (outside this repository)",
    "',' is excluded (delimiter of the cache library)",
    "collision freedom under use in transactions is additionally exercised by the other engines through the adversarial gamma variants (g1: eth1/eth10, g2: x_y/x, g3: a/b, p:q, q=r)",
]
def w_outer_space(clause, e):
    """a key value with leading / trailing white space: ParsePath trims it"""
    return clause == "RoundTripXPath" and any(kv[1] != kv[1].strip() for el in e["p"] for kv in el["keys"])


WITNESS = {"key_value_outer_space": w_outer_space}


def universe(tier):
    wd = vlib.scratch("paths")
    try:
        vlib.spec_copy(wd)
        rc, out = vlib.tlc("MCPaths.tla", "MCPaths.cfg" if tier == "quick" else "MCPathsT.cfg", wd, workers=8, timeout=3000)
        if "No error has been found" not in out:
            raise Inconclusive("Paths laws failed on the model:\n" + out[-3000:])
        m = LINE.search(out)
        if not m:
            raise Inconclusive("no paths emitted:\n" + out[-1500:])
        d = json.loads(json.loads('"' + m.group(1) + '"'))
        for k in ("leaves", "nodes"):
            d[k].sort(key=lambda x: json.dumps(x["strs"]))
        return d
    finally:
        shutil.rmtree(wd, ignore_errors=True)


def check(prop, tier, seed, replay):
    t0 = time.time()
    vh = vlib.build_harness()
    wd = vlib.scratch("c11")
    try:
        if replay is None:
            d = universe(tier)
            coll = d.pop("collisions")
            d["id"] = "u-%s" % tier
            log("Paths.tla: laws hold on the conventions for %d leaf paths and %d nodes; %d ordered pairs collide under the joined key" % (len(d["leaves"]), len(d["nodes"]), len(coll)))
        else:
            coll = []
            with open(replay) as fh:
                d = json.load(fh)["behaviour"]
        trace = os.path.join(wd, "trace.ndjson")
        vlib.run_harness(vh, "paths", [d], trace, timeout=3000)
        events = vlib.read_ndjson(trace)
        verdict = vlib.tlc_trace("PathsTrace.tla", "PathsTrace.cfg", trace, timeout=3000)
    finally:
        shutil.rmtree(wd, ignore_errors=True)
    nt = verdict["nt"]
    log("events=%d failed clauses: %s nt=%s" % (verdict["total"], dict(collections.Counter(b[1] for b in verdict["bad"])), nt))
    known = [k for k in vlib.load_known() if k["property"] == "C11"]
    violations, knownhits = [], {}
    for (p, clause, line) in verdict["bad"]:
        e = events[line - 1]
        if p == "M":
            raise Inconclusive("model and generator disagree on the element sequence of %s" % e["p"])
        hit = None
        for k in known:
            if k.get("clause") in ("*", clause) and WITNESS.get(k["witness"], lambda c, e: False)(clause, e):
                hit = k
        if hit:
            knownhits.setdefault(hit["id"], [hit, 0])[1] += 1
        else:
            violations.append((clause, e))
    for kid, (k, n) in sorted(knownhits.items()):
        print("KNOWN-FINDING: property=C11 %s (%s; %d cases)" % (k["what"], kid, n))
    collset = set(json.dumps(c[0]) for c in coll) | set(json.dumps(c[1]) for c in coll)
    colliding_stored = sum(1 for e in events if e["ev"] == "stored" and json.dumps(e["strs"]) in collset)
    cov = dict(states=len(d["leaves"]) + len(d["nodes"]), transitions=len(events), traces_validated_against_impl=1,
               evaluations=len(events), distinct_nontrivial=nt["multikey"] + nt["strictbranch"] + colliding_stored,
               rule="all instance paths of the bounded universe (14 key values in quick, 26 in thorough; 1-, 2- and 3-key lists with keys declared non-alphabetically); non-trivial = conversions of paths with more than one key + branch queries of inner nodes with stored leaves below + stored paths that collide with another stored path under the joined key",
               paths=len(d["leaves"]), nodes=len(d["nodes"]), join_collisions_in_model=len(coll), colliding_paths_stored=colliding_stored, counters=nt,
               samples=[dict(conversion={k: events[40][k] for k in ("p", "got", "back", "xpath", "parsed", "tree")})] + [dict(colliding_pair=coll[0])] if coll else [dict(conversion=events[0])],
               exhaustive=True, known_findings_hit={k: v[1] for k, v in knownhits.items()})
    rc, seen = 0, set()
    for (clause, e) in violations:
        if clause in seen:
            continue
        seen.add(clause)
        beh = dict(id="r", leaves=[x for x in d["leaves"] if x["strs"] == e["strs"]] or d["leaves"][:1], nodes=[x for x in d["nodes"] if x["strs"] == e["strs"]])
        if e["ev"] in ("exists", "branch", "pathset"):
            beh = d
        path = vlib.save_replay("C11", clause, beh, dict(clause=clause, event={k: v for k, v in e.items() if v not in ([], "", False, 0)}))
        print("VIOLATION property=C11 replay=%s" % path)
        log("  clause %s: %s" % (clause, {k: v for k, v in e.items() if v not in ([], "", False, 0)}))
        rc = 1
    if rc == 0 and replay is None and (nt["multikey"] < 10 or nt["strictbranch"] < 5 or colliding_stored < 2):
        raise Inconclusive("vacuous run: %s colliding=%d" % (nt, colliding_stored))
    vlib.write_evidence("C11", tier, seed, "model_checking", cov, ASSUME, len(violations), time.time() - t0)
    return rc
