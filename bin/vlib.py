"""Shared machinery of bin/check: build, TLC runs (design / generation / trace validation),
harness runs, known findings, evidence.  Python stdlib only."""
import glob, hashlib, json, os, re, shutil, subprocess, sys, tempfile, time

VERIF = os.path.dirname(os.path.dirname(os.path.abspath(__file__)))
REPO = os.environ.get("VERIF_REPO", "/repo")
SPEC = os.path.join(VERIF, "spec")
OUT = os.path.join(VERIF, "out")
GOENV = dict(GOFLAGS="-mod=mod", GOPROXY="off", GOSUMDB="off", GOTOOLCHAIN="local")
T0 = time.time()


class Inconclusive(Exception):
    pass


def log(*a):
    print("[check %6.1fs]" % (time.time() - T0), *a, file=sys.stderr, flush=True)


def scratch(prefix):
    base = os.environ.get("TMPDIR", "/tmp")
    return tempfile.mkdtemp(prefix="verif-%s-" % prefix, dir=base)


def run(cmd, env=None, timeout=None, cwd=None, check=False):
    e = dict(os.environ)
    e.update(GOENV)
    e["VERIF_DIR"] = VERIF
    if env:
        e.update(env)
    p = subprocess.run(cmd, env=e, cwd=cwd, timeout=timeout, stdout=subprocess.PIPE, stderr=subprocess.STDOUT, text=True)
    if check and p.returncode != 0:
        raise Inconclusive("command failed (%d): %s\n%s" % (p.returncode, " ".join(cmd), p.stdout[-4000:]))
    return p.returncode, p.stdout


def build_harness(race=False):
    """Rebuild the harness binary against /repo's current working tree (hooks on)."""
    os.makedirs(os.path.join(VERIF, "build"), exist_ok=True)
    shutil.copyfile(os.path.join(REPO, "go.sum"), os.path.join(VERIF, "harness", "go.sum"))
    out = os.path.join(VERIF, "build", "vh-race" if race else "vh")
    cmd = ["go", "build", "-tags", "verif"] + (["-race"] if race else []) + ["-o", out, "./cmd/vh"]
    rc, o = run(cmd, cwd=os.path.join(VERIF, "harness"), timeout=1200)
    if rc != 0:
        raise Inconclusive("harness build failed:\n" + o[-4000:])
    return out


def spec_copy(dst):
    for f in glob.glob(os.path.join(SPEC, "*.tla")) + glob.glob(os.path.join(SPEC, "*.cfg")):
        shutil.copy(f, dst)


TLC_STATS = re.compile(r"(\d[\d,]*) states generated, (\d[\d,]*) distinct states found")


def tlc(module, cfg, workdir, workers=16, env=None, timeout=900, extra=()):
    spec_copy(workdir)
    meta = os.path.join(workdir, "meta-%d" % int(time.time() * 1000))
    cmd = ["tlc", "-workers", str(workers), "-metadir", meta, "-config", cfg] + list(extra) + [module]
    # TLC unpacks its module jars into java.io.tmpdir (one tlc-* directory per run): keep that inside the work dir
    env = dict(env or {})
    jt = os.path.join(workdir, "jtmp")
    os.makedirs(jt, exist_ok=True)
    env["JAVA_TOOL_OPTIONS"] = (os.environ.get("JAVA_TOOL_OPTIONS", "") + " -Djava.io.tmpdir=" + jt).strip()
    try:
        rc, out = run(cmd, env=env, timeout=timeout, cwd=workdir)
    except subprocess.TimeoutExpired:
        raise Inconclusive("TLC timed out: %s %s" % (module, cfg))
    finally:
        shutil.rmtree(meta, ignore_errors=True)
    return rc, out


def tlc_design(module, cfg, workers=16, timeout=900, coverage=False):
    """Exhaustive check of a design configuration. Returns dict(states, distinct, depth)."""
    wd = scratch("tlc")
    try:
        rc, out = tlc(module, cfg, wd, workers=workers, timeout=timeout, extra=(["-coverage", "1"] if coverage else []))
        m = None
        for m in TLC_STATS.finditer(out):
            pass
        if "Model checking completed. No error has been found." not in out or m is None:
            raise Inconclusive("design model %s/%s did not pass:\n%s" % (module, cfg, out[-3000:]))
        depth = re.search(r"depth of the complete state graph search is (\d+)", out)
        res = dict(states=int(m.group(2).replace(",", "")), transitions=int(m.group(1).replace(",", "")),
                   depth=int(depth.group(1)) if depth else 0, module=module, cfg=cfg)
        if coverage:
            zero = re.findall(r"<(\w+) line[^>]*>: 0:0", out)
            res["actions_never_taken"] = sorted(set(zero))
        return res
    finally:
        shutil.rmtree(wd, ignore_errors=True)


def tlc_generate(module, cfg, num, depth, seed, steps, extra_env=None, cfg_subst=None):
    """Simulate the design spec and collect the emitted behaviours (inputs only).
    cfg_subst: textual substitutions applied to the .cfg (e.g. another Disabled set)."""
    wd = scratch("gen")
    gen = os.path.join(wd, "gen")
    os.makedirs(gen)
    try:
        if cfg_subst:
            spec_copy(wd)
            with open(os.path.join(wd, cfg)) as fh:
                c = fh.read()
            for a, b in cfg_subst.items():
                assert a in c, (a, cfg)
                c = c.replace(a, b)
            cfg = "sub_" + cfg
            with open(os.path.join(wd, cfg), "w") as fh:
                fh.write(c)
        env = dict(VERIF_GEN_DIR=gen, VERIF_GEN_STEPS=str(steps), VERIF_GEN_BIAS="none")
        if extra_env:
            env.update(extra_env)
        rc, out = tlc(module, cfg, wd, workers=1, env=env, timeout=900,
                      extra=["-simulate", "num=%d" % num, "-depth", str(depth), "-seed", str(seed)])
        files = sorted(glob.glob(os.path.join(gen, "b*.json")), key=lambda f: int(os.path.basename(f)[1:-5]))
        if not files:
            raise Inconclusive("generation produced nothing:\n" + out[-3000:])
        behs = []
        for f in files:
            with open(f) as fh:
                behs.append(json.load(fh))
        return behs
    finally:
        shutil.rmtree(wd, ignore_errors=True)


def tlc_trace(module, cfg, trace_file, timeout=900):
    """Validate a recorded trace against a trace specification. Returns the verdict dict."""
    wd = scratch("trace")
    try:
        outf = os.path.join(wd, "verdict.json")
        rc, out = tlc(module, cfg, wd, workers=1, env=dict(VERIF_TRACE=trace_file, VERIF_OUT=outf), timeout=timeout)
        if not os.path.exists(outf) or "Model checking completed. No error has been found." not in out:
            raise Inconclusive("trace validation did not complete (%s):\n%s" % (trace_file, out[-4000:]))
        with open(outf) as fh:
            v = json.load(fh)
        if v["consumed"] != v["total"]:
            raise Inconclusive("trace not fully consumed: %s" % v)
        return v
    finally:
        shutil.rmtree(wd, ignore_errors=True)


def run_harness(binary, engine, behaviours, trace_out, args=(), timeout=3000):
    wd = scratch("run")
    try:
        bf = os.path.join(wd, "behaviours.ndjson")
        with open(bf, "w") as fh:
            for b in behaviours:
                fh.write(json.dumps(b, sort_keys=True) + "\n")
        rc, out = run([binary, engine, "-in", bf, "-out", trace_out] + list(args), env=dict(TMPDIR=wd), timeout=timeout)
        if rc != 0:
            raise Inconclusive("harness %s failed (%d):\n%s" % (engine, rc, out[-4000:]))
        return out
    finally:
        shutil.rmtree(wd, ignore_errors=True)


def run_harness_parallel(binary, engine, behaviours, trace_out, args=(), workers=8, timeout=3000):
    """Split the behaviours over several harness processes (each with its own cache directory);
    the traces are concatenated in behaviour order."""
    import concurrent.futures
    n = max(1, min(workers, len(behaviours) // 4 or 1))
    chunks = [behaviours[i::n] for i in range(n)]
    wd = scratch("par")
    try:
        outs = [os.path.join(wd, "t%d.ndjson" % i) for i in range(n)]
        with concurrent.futures.ThreadPoolExecutor(n) as ex:
            futs = [ex.submit(run_harness, binary, engine, chunks[i], outs[i], args, timeout) for i in range(n)]
            for f in futs:
                f.result()
        with open(trace_out, "w") as fo:
            for o in outs:
                with open(o) as fi:
                    shutil.copyfileobj(fi, fo)
    finally:
        shutil.rmtree(wd, ignore_errors=True)


def read_ndjson(path):
    with open(path) as fh:
        return [json.loads(x) for x in fh if x.strip()]


def load_known():
    """known_findings.txt: one finding per line,
         known: property=<id> id=<KF-..> clause=<clause|*> witness=<classifier> what=<free text to end of line>
         fixed: property=<id> <commit> <what failed>          (suppresses nothing)"""
    p = os.path.join(VERIF, "known_findings.txt")
    out = []
    if os.path.exists(p):
        with open(p) as fh:
            for line in fh:
                line = line.strip()
                if not line.startswith("known:"):
                    continue
                body = line[len("known:"):].strip()
                head, _, what = body.partition(" what=")
                rec = dict(status="known", what=what.strip())
                for tok in head.split():
                    k, _, v = tok.partition("=")
                    rec[k] = v
                out.append(rec)
    return out


def write_evidence(prop, tier, seed, level, coverage, assumptions, violations, wall):
    os.makedirs(os.path.join(VERIF, "evidence"), exist_ok=True)
    ev = dict(property_id=prop, tier=tier, seed=seed, level=level, coverage=coverage,
              assumptions=assumptions, wall_s=round(wall, 1), violations=violations)
    with open(os.path.join(VERIF, "evidence", prop + ".json"), "w") as fh:
        json.dump(ev, fh, indent=1, sort_keys=True)
        fh.write("\n")


def save_replay(prop, name, behaviour, extra=None):
    d = os.path.join(OUT, prop)
    os.makedirs(d, exist_ok=True)
    h = hashlib.sha256(json.dumps(behaviour, sort_keys=True).encode()).hexdigest()[:12]
    p = os.path.join(d, "%s-%s.json" % (name, h))
    with open(p, "w") as fh:
        json.dump(dict(behaviour=behaviour, info=extra or {}), fh, indent=1, sort_keys=True)
    return p
