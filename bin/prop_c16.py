"""C16: confirm, cancel and timeout resolve each transaction exactly once.
 (1) TLC checks the C16 invariants and termination on TxnImpl.tla for every combination of ids and operations;
 (2) TLC enumerates the complete schedules of TxnImpl (TxnGen.tla); the real goroutines of
     Datastore.TransactionConfirm / TransactionCancel / TransactionSet and the real rollback timer are driven
     through them, gated at the verif yield points (harness/drive/txn.go);
 (3) TLC validates the recorded outcomes against TxnTrace.tla."""
import itertools, json, os, random, re, shutil, subprocess, time
import vlib
from vlib import log, Inconclusive

IDS = ["T1", "X", "T2"]
OPSETS = [("confirm", "cancel", "set2"), ("confirm", "set2"), ("cancel", "set2"), ("confirm", "cancel"), ("confirm",), ("cancel",), ("set2",)]
SCHED = re.compile(r'^<<"SCHED", "(.*)">>$')

ASSUME = [
    "yield points (pkg/verifhook) sit before every lock acquisition of the life cycle and right after the timer fired; between two yield points a goroutine runs undisturbed",
    "the only order the harness cannot force is Go's select between an expired timer and a closed done channel; schedules in which the timer fires use a 30 ms timeout and wait for the goroutine to park after firing",
    "rollbacks of T1 are counted as device Set calls after T1 was applied (minus T2's own apply/rollback)",
    "a panic in a production goroutine kills the harness process; the wrapper records it for the schedule that was running",
]


def cfg_text(ops, cid, kid, gen):
    inv = "INVARIANT Emit" if gen else "VIEW view\nINVARIANTS ConfirmedKept CancelledOnce AtMostOnce ExactlyOnce NewerSurvives WrongIdNoEffect NotRefusedByWaiter SlotSane\nPROPERTIES Terminates"
    return ("SPECIFICATION %s\nCONSTANTS\n  Ops = {%s}\n  ConfirmId = \"%s\"\n  CancelId = \"%s\"\n  MaxRetry = 2\n%s\nCHECK_DEADLOCK FALSE\n"
            % ("GSpec" if gen else "Spec", ", ".join('"%s"' % o for o in ops), cid, kid, inv))


def combos(tier):
    out = []
    for ops in OPSETS:
        cids = IDS if "confirm" in ops else ["T1"]
        kids = IDS if "cancel" in ops else ["T1"]
        for c in cids:
            for k in kids:
                if (c == "T2" or k == "T2") and "set2" not in ops:
                    continue
                out.append((ops, c, k))
    return out


def design_and_schedules(tier):
    wd = vlib.scratch("txn")
    states = trans = 0
    scheds = []
    try:
        vlib.spec_copy(wd)
        for n, (ops, c, k) in enumerate(combos(tier)):
            with open(os.path.join(wd, "mc.cfg"), "w") as fh:
                fh.write(cfg_text(ops, c, k, False))
            rc, out = vlib.tlc("TxnImpl.tla", "mc.cfg", wd, workers=4, timeout=300)
            m = None
            for m in vlib.TLC_STATS.finditer(out):
                pass
            if "No error has been found" not in out or m is None:
                raise Inconclusive("TxnImpl design check failed for %s %s %s:\n%s" % (ops, c, k, out[-2500:]))
            states += int(m.group(2).replace(",", ""))
            trans += int(m.group(1).replace(",", ""))
            with open(os.path.join(wd, "gen.cfg"), "w") as fh:
                fh.write(cfg_text(ops, c, k, True))
            rc, out = vlib.tlc("TxnGen.tla", "gen.cfg", wd, workers=1, timeout=600)
            cnt = 0
            for line in out.splitlines():
                mm = SCHED.match(line.strip())
                if mm:
                    js = json.loads('"' + mm.group(1) + '"')
                    d = json.loads(js)
                    cnt += 1
                    scheds.append(dict(id="sch-%d-%d" % (n, cnt), ops=sorted(d["ops"]), confirmId=d["confirmId"], cancelId=d["cancelId"],
                                       schedule=[list(x) for x in d["schedule"]], exp=d["exp"]))
            if cnt == 0:
                raise Inconclusive("no schedules for %s %s %s:\n%s" % (ops, c, k, out[-2000:]))
        return dict(states=states, transitions=trans, module="TxnImpl.tla", cfg="all %d id/operation combinations" % len(combos(tier))), scheds
    finally:
        shutil.rmtree(wd, ignore_errors=True)


def run_txn(vh, behs, trace_out):
    """run vh txn; a crash of the process (panic in a production goroutine) is recorded for the running schedule."""
    wd = vlib.scratch("txnrun")
    try:
        bf = os.path.join(wd, "s.ndjson")
        with open(bf, "w") as fh:
            for b in behs:
                fh.write(json.dumps({k: b[k] for k in ("id", "ops", "confirmId", "cancelId", "schedule") if k in b} | ({"free": True} if b.get("free") else {}) | ({"press": True} if b.get("press") else {})) + "\n")
        tr = os.path.join(wd, "t.ndjson")
        skip, crashes = 0, []
        while skip < len(behs):
            rc, out = vlib.run([vh, "txn", "-in", bf, "-out", tr, "-skip", str(skip)], env=dict(TMPDIR=wd), timeout=3000)
            evs = vlib.read_ndjson(tr) if os.path.exists(tr) else []
            done = [e for e in evs if e["ev"] == "txn"]
            begun = [e for e in evs if e["ev"] == "begin"]
            if rc == 0:
                break
            # crashed while running begun[-1]
            if not begun or (done and done[-1]["b"] == begun[-1]["b"]):
                raise Inconclusive("vh txn failed outside a schedule:\n" + out[-3000:])
            bid = begun[-1]["b"]
            crashes.append((bid, out[-1500:]))
            with open(tr, "a") as fh:
                fh.write(json.dumps(dict(ev="txn", b=bid, panic=True, msg=out[-600:])) + "\n")
            skip = [i for i, b in enumerate(behs) if b["id"] == bid][0] + 1
            if len(crashes) > 50:
                break
        evs = [e for e in vlib.read_ndjson(tr) if e["ev"] == "txn"]
        byid = {b["id"]: b for b in behs}
        with open(trace_out, "w") as fh:
            for e in evs:
                b = byid[e["b"]]
                e.setdefault("panic", False)
                e["exp"] = b.get("exp", dict(ret={}, rollbacks=0, slot="none", armed2=False))
                e["free"] = bool(b.get("free") or b.get("press"))
                for k, v in dict(ops=b["ops"], confirmId=b["confirmId"], cancelId=b["cancelId"], fires=False, answers={}, errmsgs={}, rollbacks=0,
                                 devcalls=0, open="-", armed=False, hung=[], followed=0, drift="", refused="", seen=[], t1present=False, t2present=False).items():
                    e.setdefault(k, v)
                fh.write(json.dumps(e) + "\n")
        return crashes
    finally:
        shutil.rmtree(wd, ignore_errors=True)


def check(prop, tier, seed, replay):
    t0 = time.time()
    vh = vlib.build_harness()
    wd = vlib.scratch("c16")
    try:
        if replay is None:
            design, scheds = design_and_schedules(tier)
            log("TxnImpl: %d states over all combinations, %d complete schedules" % (design["states"], len(scheds)))
            rnd = random.Random(seed)
            if tier == "quick":
                # stratified sample: schedules with many context switches first
                def switches(s):
                    return sum(1 for a, b in zip(s["schedule"], s["schedule"][1:]) if a[0] != b[0])
                scheds.sort(key=lambda s: (-switches(s), s["id"]))
                top = scheds[:400]
                rnd.shuffle(top)
                rest = scheds[400:]
                rnd.shuffle(rest)
                behs = top[:170] + rest[:70]
            else:
                # all complete schedules are ~41 k, each takes about a second of real time (timers): the thorough tier
                # replays the 6000 with the most context switches and 6000 random others
                def switches(s):
                    return sum(1 for a, b in zip(s["schedule"], s["schedule"][1:]) if a[0] != b[0])
                scheds.sort(key=lambda s: (-switches(s), s["id"]))
                rest = scheds[6000:]
                rnd.shuffle(rest)
                behs = scheds[:6000] + rest[:6000]
            # pressure variants: schedules in which the expired timer waits for the manager's mutex before a Cancel / Confirm
            # takes it; inside the first device call (the rollback) every parked goroutine is let go
            def timer_waits_first(s):
                t = [i for i, st in enumerate(s["schedule"]) if st[0] == "timer" and len(st) > 2 and st[2] == "timer.lock"]
                c = [i for i, st in enumerate(s["schedule"]) if st[0] in ("cancel", "confirm", "set2") and st[1] in ("cancel.lock", "confirm.lock", "set.register")]
                return bool(t) and bool(c) and t[0] < c[0]
            cand = [s for s in scheds if timer_waits_first(s)]
            rnd.shuffle(cand)
            for s in cand[:(80 if tier == "quick" else 600)]:
                behs.append(dict(s, id=s["id"] + "-press", press=True))
            # free-running repetitions (Go scheduler decides) for the combinations with all three operations
            for i in range(20 if tier == "quick" else 200):
                c, k = rnd.choice(IDS[:2]), rnd.choice(IDS[:2])
                behs.append(dict(id="free-%d" % i, ops=["cancel", "confirm", "set2"], confirmId=c, cancelId=k, schedule=[], free=True))
        else:
            design = None
            with open(replay) as fh:
                behs = [json.load(fh)["behaviour"]]
        trace = os.path.join(wd, "trace.ndjson")
        # parallel: split over processes
        import concurrent.futures
        nproc = (12 if len(behs) > 2000 else 8) if len(behs) > 16 else 1
        parts = [behs[i::nproc] for i in range(nproc)]
        outs = [os.path.join(wd, "t%d.ndjson" % i) for i in range(nproc)]
        with concurrent.futures.ThreadPoolExecutor(nproc) as ex:
            crashes = sum(ex.map(lambda a: run_txn(vh, a[0], a[1]), zip(parts, outs)), [])
        with open(trace, "w") as fo:
            for o in outs:
                with open(o) as fi:
                    shutil.copyfileobj(fi, fo)
        log("replayed %d schedules on the real code (%d process crashes)" % (len(behs), len(crashes)))
        verdict = vlib.tlc_trace("TxnTrace.tla", "TxnTrace.cfg", trace)
        events = vlib.read_ndjson(trace)
    finally:
        shutil.rmtree(wd, ignore_errors=True)
    import collections
    log("failed clauses by kind: %s; followed=%s" % (dict(collections.Counter(b[1] for b in verdict["bad"])), verdict["nt"]))
    byid = {b["id"]: b for b in behs}
    violations = []
    for (p, clause, line) in verdict["bad"]:
        violations.append((clause, events[line - 1]))
    nt = verdict["nt"]
    if replay is None and nt["drifted"] > max(5, len(behs) // 5):
        # the code does not follow the model's yield-point structure any more: outcomes are still judged, but say so
        log("WARNING: %d of %d schedules could not be followed (model drift)" % (nt["drifted"], len(behs)))
    cov = dict(states=design["states"] if design else 1, transitions=design["transitions"] if design else 1,
               traces_validated_against_impl=len(behs),
               samples=[dict(schedule=b["schedule"], ops=b["ops"], confirmId=b["confirmId"], cancelId=b["cancelId"]) for b in behs[:2]]
               + [dict(outcome={k: events[0][k] for k in ("answers", "rollbacks", "open", "drift", "seen")})],
               evaluations=len(behs), distinct_nontrivial=nt["interleaved"],
               rule="complete schedules of TxnImpl enumerated by TLC (quick: stratified sample, thorough: all) plus free-running repetitions; non-trivial = at least two goroutines interleave inside each other's yield-point sequence on the real code (counted by the trace spec from the yield points actually passed)",
               schedules_followed=nt["followed"], schedules_drifted=nt["drifted"], design_models=[design] if design else [],
               exhaustive=False)
    rc = 0
    seen = set()
    for (clause, e) in violations:
        if e["b"] in seen:
            continue
        seen.add(e["b"])
        b = byid[e["b"]]
        path = vlib.save_replay("C16", clause, {k: b[k] for k in b if k != "exp"} | {"exp": b.get("exp")}, dict(clause=clause, outcome=e))
        print("VIOLATION property=C16 replay=%s" % path)
        log("  clause %s: answers=%s rollbacks=%s open=%s drift=%r panic=%s" % (clause, e.get("answers"), e.get("rollbacks"), e.get("open"), e.get("drift"), e.get("panic")))
        rc = 1
        if len(seen) >= 6:
            break
    if rc == 0 and replay is None:
        if nt["followed"] < len(behs) // 2:
            raise Inconclusive("model drift: only %d of %d schedules were followed by the code" % (nt["followed"], len(behs)))
        if nt["interleaved"] < 2:
            raise Inconclusive("vacuous run: no interleaving observed")
    vlib.write_evidence("C16", tier, seed, "model_checking", cov, ASSUME, len(violations), time.time() - t0)
    return rc
