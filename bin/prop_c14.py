"""C14: GetData returns exactly what is stored under the requested paths.  TLC samples store contents and
enumerates the request space of GetData.tla (checking NothingOutside / ErrorsNotPartial / SameAcrossEncodings on
the one-step machine); every (store, request) pair is issued through the real Datastore.Get; the decoded answers are
validated by TLC against GetDataSem (GetDataTrace.tla)."""
import json, os, random, re, shutil, time
import vlib
from vlib import log, Inconclusive

LINE = re.compile(r'^<<"GETSTATES", "(.*)">>$')
GAMMAS = ["g1", "g0", "g2", "g3"]
ASSUME = [
    "store contents are written directly through the cache client (config, state and intended entries)",
    "STRING/PROTO answers are abstracted update by update, JSON/JSON_IETF documents are decoded structurally (harness/uni/jsondec.go); values are compared as canonical datums",
    "presence containers are only stored without children in this universe (a JSON document cannot show both)",
]


def witness_intended_owner_prefix(e):
    """owner specific INTENDED read of a non-leaf path: the cache keys intended entries by path+priority+owner and
    cannot answer a prefix read for one owner"""
    r = e["req"]
    return r["type"] == "INTENDED" and not all(p in LEAFNODES for p in r["paths"])


def witness_partial_key(e):
    """paths with partial list keys are flattened without the missing key: neither the cache prefix read nor
    the position of the remaining key values can match"""
    return any(p in ("pair[z1]",) for p in e["req"]["paths"])


LEAFNODES = {"plain/a", "plain/ab", "item[k1]/val", "item[k2]/val", "sys/host", "sys/hostname", "sys/tags", "item[k1]/oper", "sys/uptime"}
WITNESS = {"intended_owner_prefix": witness_intended_owner_prefix, "partial_key_path": witness_partial_key}


def sample(tier, seed):
    wd = vlib.scratch("get")
    try:
        vlib.spec_copy(wd)
        rc, out = vlib.tlc("MCGetData.tla", "MCGetData.cfg", wd, workers=4, timeout=600, extra=["-seed", str(seed)])
        m = None
        for m in vlib.TLC_STATS.finditer(out):
            pass
        if "No error has been found" not in out or m is None:
            raise Inconclusive("GetData design check failed:\n" + out[-2500:])
        design = dict(states=int(m.group(2).replace(",", "")), transitions=int(m.group(1).replace(",", "")), module="MCGetData.tla", cfg="MCGetData.cfg")
        data = None
        for line in out.splitlines():
            mm = LINE.match(line.strip())
            if mm:
                data = json.loads(json.loads('"' + mm.group(1) + '"'))
        if data is None:
            raise Inconclusive("no states emitted:\n" + out[-1500:])
        return design, data
    finally:
        shutil.rmtree(wd, ignore_errors=True)


def tofun(x):
    return sorted([[k, v] for k, v in x.items()]) if isinstance(x, dict) else []


def check(prop, tier, seed, replay):
    t0 = time.time()
    vh = vlib.build_harness()
    wd = vlib.scratch("c14")
    try:
        if replay is None:
            rounds = 3 if tier == "quick" else 12
            states, design = [], dict(states=0, transitions=0, module="MCGetData.tla", cfg="MCGetData.cfg")
            for r in range(rounds):
                d, data = sample(tier, seed * 100 + r)
                design["states"] += d["states"]
                design["transitions"] += d["transitions"]
                reqs = [dict(type=q["type"], dt=q["dt"], enc=q["enc"], paths=sorted(q["paths"]), owner=q["owner"], prio=q["prio"]) for q in data["reqs"]]
                reqs.sort(key=lambda q: json.dumps(q, sort_keys=True))
                for k, s in enumerate(data["states"]):
                    states.append(dict(id="st-%d-%d" % (r, k), gamma=GAMMAS[(seed + k) % 4], config=tofun(s["config"]), state=tofun(s["state"]),
                                       intended=sorted([[x["o"], x["p"], x["l"], x["v"]] for x in s["intended"]]), reqs=reqs))
            log("GetData.tla: %d (state, request) pairs checked by TLC; %d stores x %d requests to issue" % (design["states"], len(states), len(states[0]["reqs"])))
        else:
            design = None
            with open(replay) as fh:
                states = [json.load(fh)["behaviour"]]
        import concurrent.futures
        nproc = min(8, max(1, len(states)))
        parts = [states[i::nproc] for i in range(nproc)]

        def runpart(i):
            sf = os.path.join(wd, "s%d.ndjson" % i)
            with open(sf, "w") as fh:
                for s in parts[i]:
                    fh.write(json.dumps(s) + "\n")
            of = os.path.join(wd, "t%d.ndjson" % i)
            rc, out = vlib.run([vh, "getdata", "-in", sf, "-out", of], env=dict(TMPDIR=wd), timeout=3000)
            if rc != 0:
                raise Inconclusive("vh getdata failed:\n" + out[-3000:])
            return of
        with concurrent.futures.ThreadPoolExecutor(nproc) as ex:
            outs = list(ex.map(runpart, range(nproc)))
        trace = os.path.join(wd, "trace.ndjson")
        with open(trace, "w") as fo:
            for o in outs:
                with open(o) as fi:
                    shutil.copyfileobj(fi, fo)
        verdict = vlib.tlc_trace("GetDataTrace.tla", "GetDataTrace.cfg", trace, timeout=1800)
        events = vlib.read_ndjson(trace)
    finally:
        shutil.rmtree(wd, ignore_errors=True)
    import collections
    log("requests=%d failed clauses: %s nt=%s" % (verdict["total"], dict(collections.Counter(b[1] for b in verdict["bad"])), verdict["nt"]))
    known = [k for k in vlib.load_known() if k["property"] == "C14"]
    byid = {s["id"]: s for s in states}
    violations, knownhits = [], {}
    for (p, clause, line) in verdict["bad"]:
        e = events[line - 1]
        hit = None
        for k in known:
            if k.get("clause") in ("*", clause) and WITNESS.get(k["witness"], lambda e: False)(e):
                hit = k
                break
        if hit:
            knownhits.setdefault(hit["id"], [hit, 0])[1] += 1
        else:
            violations.append((clause, e))
    nt = verdict["nt"]
    cov = dict(states=design["states"] if design else 1, transitions=design["transitions"] if design else 1,
               traces_validated_against_impl=len(events), evaluations=len(events), distinct_nontrivial=nt["strict"],
               rule="store contents sampled by TLC (RandomSetOfSubsets over 19 config leaves incl. prefix related names/keys and a two-key list, state leaves, two intents), crossed with the full request list of MCGetData (24 nodes x encodings x MAIN data types, path pairs, INTENDED selections, error requests); non-trivial = the request selects a non-empty strict subset of the stores (counted by the trace spec)",
               samples=[dict(store={k: states[1][k] for k in ("config", "state", "intended")}, request=states[1]["reqs"][5])] + [dict(answer=events[5]["leaves"], ret=events[5]["ret"])],
               design_models=[design] if design else [], known_findings_hit={k: v[1] for k, v in knownhits.items()}, exhaustive=False)
    for kid, (k, n) in sorted(knownhits.items()):
        print("KNOWN-FINDING: property=C14 %s (%s; %d requests)" % (k["what"], kid, n))
    rc, seen = 0, 0
    for (clause, e) in violations:
        s = byid[e["b"]]
        path = vlib.save_replay("C14", clause, dict(id=s["id"], gamma=s["gamma"], config=s["config"], state=s["state"], intended=s["intended"], reqs=[e["req"]]),
                                dict(clause=clause, ret=e["ret"], leaves=e["leaves"], errmsg=e["errmsg"]))
        print("VIOLATION property=C14 replay=%s" % path)
        log("  clause %s: req=%s ret=%s leaves=%s" % (clause, e["req"], e["ret"], e["leaves"][:8]))
        rc = 1
        seen += 1
        if seen >= 6:
            break
    if rc == 0 and replay is None and nt["strict"] < 2:
        raise Inconclusive("vacuous run")
    vlib.write_evidence("C14", tier, seed, "model_checking", cov, ASSUME, len(violations), time.time() - t0)
    return rc
