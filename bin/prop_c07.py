"""C07: fault enumeration.  For applied transactions of TLC-generated histories every collaborator call
(device Set, each cache Read/GetKeys/Modify, each schema GetSchema/ToPath) is made to fail once
(error, or error + restart over the same cache), followed by a retry of the same request; the same for the
collaborator calls of the rollback when the last transaction is cancelled (a failed cancel keeps the transaction
registered, the repeated cancel converges).
The traces are validated against IntentsTrace.tla (clauses C07.*)."""
import copy, json, os, shutil, time
import vlib, eng_intents, prop_intents
from vlib import log, Inconclusive

PLAN = {"quick": dict(num=40, steps=6, bases=8, fsteps=2), "thorough": dict(num=400, steps=8, bases=60, fsteps=3)}

ASSUME = prop_intents.ASSUME[:1] + prop_intents.ASSUME[2:] + [
    "a failing cache Read/ReadCh is an empty read (the client interface has no error return), a failing GetKeys/Modify/GetSchema/ToPath returns an error",
    "the running mirror is NOT refreshed by the environment in these runs (no device sync between the fault and the retry)",
    "a restart is a new Datastore (and schema-client memoisation) over the same cache instance and device",
]


def clean_history(b):
    """keep the transactions the specification accepts and applies; confirm each of them."""
    raw_steps = b["steps"]
    out, n = [], 0
    for s in raw_steps:
        if s["op"] == "txset" and s.get("exp") == "ok" and not s.get("dry"):
            n += 1
            tid = "t%d" % n
            t = dict(op="txset", id=tid, tmo=30000, intents=s["intents"])
            out.append(t)
            out.append(dict(op="confirm", id=tid))
    return out


def bases(tier, seed):
    pl = PLAN[tier]
    raw = vlib.tlc_generate("IntentsGen.tla", "IntentsGen_core.cfg", pl["num"], pl["steps"] * 9 + 10, seed, pl["steps"])
    out = []
    for k, r in enumerate(raw):
        eng_intents.pair_answers(r)
        for s in r["steps"]:
            if s["op"] == "txset":
                s["intents"] = sorted([dict(o=x["o"], p=x["p"], kind=x["kind"], upd=sorted([list(q) for q in x["upd"]])) for x in s["intents"]], key=lambda x: x["o"])
        steps = clean_history(r)
        if len(steps) >= 4:
            out.append(dict(id="base-s%d-%d" % (seed, k), gamma=eng_intents.GAMMAS[(seed + k) % 4],
                            init=sorted([list(q) for q in r["init"]]), steps=steps))
    # prefer long histories with several owners
    out.sort(key=lambda b: -len(b["steps"]))
    return out[:pl["bases"]]


def fault_variants(base, ncalls_by_step, fsteps):
    """ncalls_by_step: {step index (0-based in base.steps) -> number of collaborator calls}"""
    out = []
    txidx = [i for i, s in enumerate(base["steps"]) if s["op"] == "txset"]
    for i in txidx[-fsteps:]:
        n = ncalls_by_step.get(i, 0)
        for j in list(range(1, n + 1)) + ["dev"]:
            for variant in ("error", "restart"):
                if j == "dev" and variant == "restart":
                    continue
                # alternate the variants over the call indices to bound the volume: every index gets "error",
                # every second one additionally "restart"
                if variant == "restart" and isinstance(j, int) and j % 2 == 0:
                    continue
                st = copy.deepcopy(base["steps"][i])
                faulty = dict(st)
                if j == "dev":
                    faulty["devfail"] = True
                else:
                    faulty["failat"] = j
                retry = dict(copy.deepcopy(st), id=st["id"] + "r")
                steps = copy.deepcopy(base["steps"][:i]) + [faulty]
                if variant == "restart":
                    steps.append(dict(op="restart"))
                else:
                    steps.append(dict(op="confirm", id=st["id"]))   # closes the transaction if the fault was absorbed
                steps += [retry, dict(op="confirm", id=retry["id"])]
                out.append(dict(id="%s-f%d-%s-%s" % (base["id"], i, j, variant), gamma=base["gamma"], init=base["init"], steps=steps))
    return out


def cancel_base(base):
    """the same history with its last transaction cancelled instead of confirmed"""
    b = copy.deepcopy(base)
    b["id"] = base["id"] + "-c"
    last = b["steps"][-1]
    assert last["op"] == "confirm"
    b["steps"][-1] = dict(op="cancel", id=last["id"])
    return b


def cancel_fault_variants(cbase, ncalls):
    """every collaborator call of the rollback of the last transaction fails once (and the device call), the cancel is repeated"""
    out = []
    last = cbase["steps"][-1]
    for j in list(range(1, ncalls + 1)) + ["dev"]:
        faulty = dict(last)
        if j == "dev":
            faulty["devfail"] = True
        else:
            faulty["failat"] = j
        steps = copy.deepcopy(cbase["steps"][:-1]) + [faulty, dict(last), dict(op="cancel", id=last["id"])]
        out.append(dict(id="%s-x%s" % (cbase["id"], j), gamma=cbase["gamma"], init=cbase["init"], steps=steps))
    return out


def check(prop, tier, seed, replay):
    t0 = time.time()
    vh = vlib.build_harness()
    design = []
    wd = vlib.scratch("c07")
    try:
        if replay is None:
            if not os.environ.get("VERIF_DEV_SKIP_DESIGN"):
                cfg = "MCIntents_faultq.cfg" if tier == "quick" else "MCIntents_fault.cfg"
                d = vlib.tlc_design("MCIntents.tla", cfg, timeout=1500)
                log("design %s: %d distinct states" % (cfg, d["states"]))
                design.append(d)
            bs = bases(tier, seed)
            if not bs:
                raise Inconclusive("no base histories")
            t_base = os.path.join(wd, "base.ndjson")
            cbs = [cancel_base(b) for b in bs]
            vlib.run_harness_parallel(vh, "intents", bs + cbs, t_base, args=["-no-env-sync"])
            ev = vlib.read_ndjson(t_base)
            ncalls, ccalls = {}, {}
            for e in ev:
                if e["ev"] == "txset":
                    ncalls.setdefault(e["b"], {})[e["i"] - 1] = e["ncalls"]
                if e["ev"] == "cancel":
                    ccalls[e["b"]] = e["ncalls"]
            behs = []
            for b in bs:
                behs += fault_variants(b, ncalls.get(b["id"], {}), PLAN[tier]["fsteps"])
            for cb in cbs:
                behs += cancel_fault_variants(cb, ccalls.get(cb["id"], 0))
            log("%d base histories, %d fault behaviours" % (len(bs), len(behs)))
        else:
            with open(replay) as fh:
                behs = [json.load(fh)["behaviour"]]
        trace = os.path.join(wd, "trace.ndjson")
        vlib.run_harness_parallel(vh, "intents", behs, trace, args=["-no-env-sync"], workers=12)
        log("replayed on the real code")
        verdict = vlib.tlc_trace("IntentsTrace.tla", "IntentsTrace.cfg", trace)
        events = vlib.read_ndjson(trace)
    finally:
        shutil.rmtree(wd, ignore_errors=True)
    import collections
    # the device after a failed and repeated cancel is the device after the fault-free cancel of the same history
    # (the trace spec judges the store; "restored" on the device is C05's business, with its known findings)
    if replay is None:
        ref = {e["b"]: e["post"]["device"] for e in ev if e["ev"] == "cancel"}
        last = {}
        for k, e in enumerate(events):
            if e["ev"] == "cancel" and "-c-x" in e["b"]:
                last[e["b"]] = k
        for b, k in sorted(last.items()):
            base_id = b[:b.index("-c-x") + 2]
            e = events[k]
            if base_id in ref and e["ret"] == "ok" and e["post"]["device"] != ref[base_id]:
                verdict["bad"].append(["C07", "CancelRetryDevice", k + 1])
    log("failed clauses by kind: %s" % dict(collections.Counter("%s.%s" % (b[0], b[1]) for b in verdict["bad"])))
    known = vlib.load_known()
    mine = [b for b in verdict["bad"] if b[0] == "C07"]
    violations, knownhits = [], {}
    for (p, clause, line) in mine:
        e = events[line - 1]
        k = prop_intents.classify(p, clause, events, line, known)
        if k is not None:
            knownhits.setdefault(k["id"], [k, 0])[1] += 1
            continue
        violations.append((clause, line, e, prop_intents.behaviour_of(behs, e)))
    # which call kinds were hit
    kinds = collections.Counter()
    for e in events:
        if e["ev"] in ("txset", "cancel") and (e.get("failat") or e.get("devfail")):
            kinds["device" if e.get("devfail") else "collab"] += 1
    nt = verdict["nt"].get("C07", 0)
    cov = dict(evaluations=len(behs), distinct_nontrivial=nt,
               rule="every collaborator call index of the last transactions of TLC-generated histories fails once (error / error+restart), then the same request is retried; non-trivial = the fault hits after the first effect (device write or cache write) of the transaction (counted by the trace spec)",
               samples=[dict(behaviour=b) for b in behs[:2]], fault_points=dict(kinds), events=verdict["total"],
               states=sum(d["states"] for d in design) or 1, transitions=sum(d["transitions"] for d in design) or 1,
               design_models=design, traces_validated_against_impl=len(behs),
               known_findings_hit={k: v[1] for k, v in knownhits.items()}, exhaustive=False)
    rc = 0
    for kid, (k, n) in sorted(knownhits.items()):
        print("KNOWN-FINDING: property=C07 %s (%s; %d steps)" % (k["what"], kid, n))
    seen = set()
    for (clause, line, e, beh) in violations:
        if beh is None or beh["id"] in seen:
            continue
        seen.add(beh["id"])
        cut = dict(beh)
        cut["steps"] = beh["steps"][:e["i"]]
        path = vlib.save_replay("C07", clause, cut, dict(clause=clause, step=e["i"], event=e))
        print("VIOLATION property=C07 replay=%s" % path)
        log("  clause %s at step %d of %s: ret=%s %s" % (clause, e["i"], beh["id"], e.get("ret"), e.get("errmsg", "")[:120]))
        rc = 1
        if len(seen) >= 6:
            break
    if rc == 0 and replay is None and nt < 2:
        raise Inconclusive("vacuous run: no fault after a first effect")
    vlib.write_evidence("C07", tier, seed, "fault_enumeration", cov, ASSUME, len(violations), time.time() - t0)
    return rc
