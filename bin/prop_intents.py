"""Verdict, known-finding matching and evidence for the properties decided by the Intents engine."""
import json, os, time
import vlib, eng_intents
from vlib import log, Inconclusive

LEVEL = "model_checking"

# what makes a behaviour count as non-trivial for a property: the counter the trace spec keeps
NT_RULE = {
    "C01": "TLC-simulated input sequences of Intents.tla replayed on the real Datastore; a step is non-trivial when it changes the ruling intent of at least one leaf or removes a managed leaf (counted by the trace spec)",
    "C02": "same traces; non-trivial when an owner named by the request has at least one shadowed entry in the pre-state",
    "C03": "same traces; non-trivial when a rejected or dry-run step occurs from a non-empty store",
    "C04": "validity family (range, length, pattern, max-elements, mandatory, leafref, must; validator switches); every TransactionSet is followed by a probe that submits the resulting configuration as one intent to an empty datastore; non-trivial when the verdict depends on a leaf outside the request or the request is rejected (counted by the trace spec)",
    "C10": "namespace / presence / core / choice families; inside the device's Set every method of the SAME TargetSource is called (proto updates+deletes, JSON, JSON_IETF, XML for the 8 option combinations, and the full views) and decoded structurally; non-trivial when the change has at least one update and one delete",
    "C05": "same traces; non-trivial when a cancel/expiry has to restore at least one store entry and one device leaf",
    "C06": "same traces; non-trivial when a call names a wrong/stale id on an open transaction, a Set arrives while one is open, or a Set ends without apply",
    "C08": "choice family; non-trivial when the winning case of a choice changes",
    "C09": "same traces; non-trivial when a verbatim re-submission hits a non-empty store",
}

ASSUME = [
    "harness device applies deletes then updates atomically on structured paths and enforces no YANG semantics",
    "between transactions the running mirror equals the device (the harness plays the device's own sync)",
    "alpha/gamma (harness/uni) map abstract ids to concrete paths and back; gamma-then-alpha identity checked at start-up",
    "priorities of distinct owners are pairwise distinct (ties are unspecified by the property)",
]


def step_of(events, line):
    """events are 1-based in the trace spec."""
    return events[line - 1]


def behaviour_of(behs, ev):
    for b in behs:
        if b["id"] == ev["b"]:
            return b
    return None


def pre_state(events, line):
    """observed abstract state before the event at `line` (post of the previous event of the same behaviour)."""
    e = events[line - 1]
    if line >= 2 and events[line - 2]["b"] == e["b"]:
        return events[line - 2]["post"]
    return None


# ---- witness classifiers for known findings: name -> predicate(events, line) ----
def fun(pairs):
    return {q[0]: q[1] for q in pairs}


def opening_set(events, line):
    """the event (and its pre-state) of the TransactionSet that opened the transaction resolved at `line`."""
    e = events[line - 1]
    j = line - 2
    while j >= 0 and events[j]["b"] == e["b"]:
        x = events[j]
        if x["ev"] == "txset" and x["ret"] == "ok" and not x["dry"] and x["post"]["open"] != "-":
            pre = events[j - 1]["post"] if j >= 1 and events[j - 1]["b"] == e["b"] else None
            return x, pre
        j -= 1
    return None, None


def touched_leaves(setev, pre):
    owners = {i["o"] for i in setev["intents"]}
    t = {q[0] for i in setev["intents"] for q in i["upd"]}
    t |= {x[2] for x in pre["intended"] if x[0] in owners}
    return t


def w_rollback_unmanaged_overwritten(events, line):
    """C05.DeviceRestored fails only on leaves that held an unmanaged device value (no intent defined
    them) before the transaction, were defined by the transaction and are absent after the rollback."""
    e = events[line - 1]
    if e["ev"] not in ("cancel", "wait"):
        return False
    setev, pre = opening_set(events, line)
    if setev is None or pre is None:
        return False
    before, after = fun(pre["device"]), fun(e["post"]["device"])
    managed_before = {x[2] for x in pre["intended"]}
    diff = [l for l in touched_leaves(setev, pre) if before.get(l) != after.get(l)]
    return bool(diff) and all(l in before and l not in managed_before and l not in after for l in diff)


def w_rollback_refused_unmanaged(events, line):
    """the rollback had no effect at all (no cache write, no device call): it was refused by validation, and the
    transaction had taken over a leaf that held an unmanaged device value before - without a pre-transaction
    running snapshot the rolled-back configuration lacks that value (same root cause as KF-C05-1)"""
    e = events[line - 1]
    if e["ev"] not in ("cancel", "wait") or e["mods"] or any(s["upd"] or s["delraw"] for s in e["sets"]):
        return False
    setev, pre = opening_set(events, line)
    if setev is None or pre is None or setev.get("hasrepl"):
        return False
    before = fun(pre["device"])
    managed_before = {x[2] for x in pre["intended"]}
    taken = {q[0] for i in setev["intents"] for q in i["upd"]}
    return any(l in before and l not in managed_before for l in taken)


def w_mixed_replace_rejected(events, line):
    """a TransactionSet that carries a replace intent AND ordinary intents, answered with validation errors (or an
    error) after the replace part was applied already"""
    e = events[line - 1]
    return e["ev"] == "txset" and e.get("hasrepl") and len(e["intents"]) > 0 and e["ret"] in ("invalid", "error") \
        and any(s["upd"] or s["delraw"] for s in e["sets"])


def faulty_step(events, line):
    """the fault-injected TransactionSet of the behaviour the event at `line` belongs to"""
    e = events[line - 1]
    j = line - 1
    while j >= 0 and events[j]["b"] == e["b"]:
        x = events[j]
        if x["ev"] in ("txset", "cancel") and (x.get("failat") or x.get("devfail")):
            return x
        j -= 1
    return None


def w_silent_read_failure(events, line):
    """C07 retry clauses fail after a cache Read/ReadCh call failed: the client interface has no error
    return, the failed read is an empty read and the transaction goes on with incomplete data."""
    f = faulty_step(events, line)
    return f is not None and f.get("failkind") in ("cache.Read", "cache.ReadCh")


def _uni():
    import json as _j, os as _o
    u = _j.load(open(_o.path.join(vlib.VERIF, "schema", "universe.json")))
    return {l["id"]: l for l in u["leaves"]}


def _choice_state(intended, leaves):
    """best entry per leaf and winning (priority, case) per choice of an observed intended store"""
    best = {}
    for o, p, l, v in intended:
        if l not in best or p < best[l][1]:
            best[l] = (o, p, v)
    win = {}
    for l, (o, p, v) in best.items():
        ch = leaves.get(l, {}).get("choice")
        if ch and (ch not in win or p < win[ch][0]):
            win[ch] = (p, leaves[l]["case"])
    return best, win


def _choice_divergence(events, line):
    """(bad, owners, involved, switched): the choice members of the winning case the device does not carry after the
    TransactionSet at `line`, the owners / leaves the transaction involves, and whether the winning case of a
    member's choice changed with this transaction; None when the event is not a successful TransactionSet"""
    e = events[line - 1]
    if e["ev"] == "txset":
        if e["ret"] != "ok" or e["dry"]:
            return None
        intents = e["intents"]
    elif e["ev"] in ("cancel", "wait") and e["ret"] == "ok" and e["sets"]:
        # a rollback is a transaction of the intents of the transaction it takes back
        setev, _ = opening_set(events, line)
        if setev is None:
            return None
        intents = setev["intents"]
    else:
        return None
    pre = pre_state(events, line)
    if pre is None:
        return None
    leaves = _uni()
    owners = {i["o"] for i in intents}
    involved = {q[0] for i in intents for q in i["upd"]} | {x[2] for x in pre["intended"] if x[0] in owners}
    dev = fun(e["post"]["device"])
    best, win = _choice_state(e["post"]["intended"], leaves)
    bad = []
    for l, (o, p, v) in best.items():
        ch = leaves.get(l, {}).get("choice")
        if ch and leaves[l]["case"] != win[ch][1]:
            continue  # losing case
        if dev.get(l) != v:
            bad.append((l, o))
    bestpre, winpre = _choice_state(pre["intended"], leaves)
    switched = lambda l: leaves[l]["choice"] in winpre and winpre[leaves[l]["choice"]][1] != win[leaves[l]["choice"]][1]
    return bad, owners, involved, switched, leaves, best, dev


def _choice_inherited(events, line, l):
    """the divergence on choice member l after the event at `line` is the unchanged left-over of an earlier step of
    the same behaviour at which the winning case switched to l's case by an uninvolved intent (the known finding):
    since then neither l's ruling entry nor the device's value for l changed and no transaction involved l"""
    cur = _choice_divergence(events, line)
    j = line - 1
    while j >= 1 and events[j - 1]["b"] == events[line - 1]["b"]:
        ej = events[j - 1]
        bj, _ = _choice_state(ej["post"]["intended"], cur[4])
        if bj.get(l) != cur[5].get(l) or fun(ej["post"]["device"]).get(l) != cur[6].get(l):
            return False
        d = _choice_divergence(events, j)
        if d is not None:
            if l in d[2] or any(o in d[1] for (l2, o) in d[0] if l2 == l):
                return False
            if any(l2 == l for (l2, o) in d[0]) and d[3](l):
                return True
        j -= 1
    return False


def w_choice_winner_uninvolved(events, line):
    """C08.WinningCaseApplied / C01.Converged fail only on choice members whose case becomes the winning one
    because the former winner left, while the winning contribution belongs to an intent that is not part of the
    transaction and whose paths the transaction does not touch (its entries are never loaded into the tree) -
    at the transaction at which the winning case changes, or afterwards for as long as the member stays
    untouched (same ruling entry, same device value, no transaction involving it)."""
    d = _choice_divergence(events, line)
    if d is None:
        return False
    bad, owners, involved, switched, leaves = d[0], d[1], d[2], d[3], d[4]
    if not bad:
        return False
    return all(leaves.get(l, {}).get("choice") and o not in owners and l not in involved
               and (switched(l) or _choice_inherited(events, line, l)) for l, o in bad)


def w_xml_leaflist_replace(events, line):
    """C10.XmlSameDel fails only because an updated leaf-list puts operation="replace" on its PARENT element:
    under NETCONF semantics the parent's other children are deleted, which the proto/JSON renderings do not do."""
    e = events[line - 1]
    ok = False
    for s in e.get("sets", []):
        if not s.get("hasenc"):
            continue
        pd = set(s["del"])
        for x in s["enc"]["xml"]:
            upd = {q[0] for q in x["upd"]}
            xdel = set(x["del"]) | (set(x.get("replaceleaves") or []) - upd)
            if xdel == pd:
                continue
            if not x["replaceon"] or set(x["del"]) != pd:
                return False
            ok = True
    return ok


def w_stale_presence_mandatory(events, line):
    """a TransactionSet refused ONLY with 'mandatory child .. does not exist, path: <presence container>' where the
    presence container is carried by nobody: no intent of the store or of the request defines it, it is on the
    device only as the left-over of an intent that gave it up while a child of another intent remained (so it was
    defined by an intent earlier in the behaviour). For the C04 probe that follows: the probe accepted."""
    import re
    e = events[line - 1]
    if e["ev"] == "probe":
        j = line - 1
        while j >= 1 and events[j - 1]["b"] == e["b"] and events[j - 1]["ev"] != "txset":
            j -= 1
        return j >= 1 and events[j - 1]["b"] == e["b"] and e["ret"] == "ok" and w_stale_presence_mandatory(events, j)
    if e["ev"] != "txset" or e["ret"] != "invalid":
        return False
    pre = pre_state(events, line)
    if pre is None:
        return False
    pres = {"/".join(x[0] for x in l["elems"]): l["id"] for l in _uni().values()
            if l["kind"] == "presence" and not any(x[1] for x in l["elems"])}
    msgs = [m.strip() for m in e.get("errmsg", "").split(" | ") if m.strip()]
    if not msgs:
        return False
    managed = {x[2] for x in pre["intended"]} | {q[0] for i in e["intents"] for q in i["upd"]}
    before = fun(pre["device"])
    ever = set()
    j = line - 1
    while j >= 1 and events[j - 1]["b"] == e["b"]:
        x = events[j - 1]
        if x["ev"] == "txset":
            ever |= {q[0] for i in x["intents"] for q in i["upd"]}
        j -= 1
    for m in msgs:
        mm = re.search(r"error mandatory child (\S+) does not exist, path: (\S+)$", m)
        if not mm or mm.group(2) not in pres:
            return False
        l = pres[mm.group(2)]
        if l in managed or l not in before or l not in ever:
            return False
    return True


def w_stale_presence_left_over(events, line):
    """C01.NoStale fails only because of a presence container that nobody holds: it stayed on the device when its
    holder left while a child of another intent lived in it (see KF-C04-1), is in no intent of the store before or
    after this transaction, was on the device before it, and was intent-defined earlier in the behaviour; every
    leaf this transaction really takes away from its last (non-orphaned) holder is gone from the device."""
    e = events[line - 1]
    if e["ev"] != "txset" or e["ret"] != "ok" or e["dry"]:
        return False
    pre = pre_state(events, line)
    if pre is None:
        return False
    leaves = _uni()
    post_int = {x[2] for x in e["post"]["intended"]}
    pre_int = {x[2] for x in pre["intended"]}
    post_dev, pre_dev = fun(e["post"]["device"]), fun(pre["device"])
    ever = set()
    j = line - 1
    while j >= 1 and events[j - 1]["b"] == e["b"]:
        x = events[j - 1]
        if x["ev"] == "txset":
            ever |= {q[0] for i in x["intents"] for q in i["upd"]}
        j -= 1
    left_over = [l for l in post_dev if leaves.get(l, {}).get("kind") == "presence" and l not in post_int and l not in pre_int
                 and l in pre_dev and l in ever]
    if not left_over:
        return False
    orphaned = {i["o"] for i in e["intents"] if i["kind"] == "orphan"}
    kept = {x[2] for x in pre["intended"] if x[0] in orphaned}
    really_removed = [l for l in pre_int if l not in post_int and l not in kept]
    return all(l not in post_dev for l in really_removed)


def w_noop_heals_choice_divergence(events, line):
    """C09: the verbatim re-submission is not a no-op only because it sends choice members of the winning case that
    the device lacked before it - a divergence left behind by KF-C08-1 at an earlier step of the behaviour (the
    re-submitted intent is the uninvolved holder of the winning case: loading it repairs the device)."""
    e = events[line - 1]
    if e["ev"] != "txset" or e["ret"] != "ok" or e["dry"]:
        return False
    pre = pre_state(events, line)
    if pre is None:
        return False
    leaves = _uni()
    pre_dev = fun(pre["device"])
    sent = [q for s_ in e["sets"] for q in s_["upd"]]
    if not sent or any(s_["delraw"] for s_ in e["sets"]):
        return False
    for l, v in sent:
        if not leaves.get(l, {}).get("choice") or pre_dev.get(l) == v:
            return False
        # the latest earlier step that left l divergent must be explained by KF-C08-1
        j, ok = line - 1, False
        while j >= 1 and events[j - 1]["b"] == e["b"]:
            d = _choice_divergence(events, j)
            if d is not None and any(l2 == l for (l2, o) in d[0]):
                ok = w_choice_winner_uninvolved(events, j)
                break
            j -= 1
        if not ok:
            return False
    return True


WITNESS = {
    "noop_heals_choice_divergence": w_noop_heals_choice_divergence,
    "stale_presence_left_over": w_stale_presence_left_over,
    "stale_presence_mandatory": w_stale_presence_mandatory,
    "xml_leaflist_replace": w_xml_leaflist_replace,
    "choice_winner_uninvolved": w_choice_winner_uninvolved,
    "silent_read_failure": w_silent_read_failure,
    "rollback_unmanaged_overwritten": w_rollback_unmanaged_overwritten,
    "rollback_refused_unmanaged": w_rollback_refused_unmanaged,
    "mixed_replace_rejected": w_mixed_replace_rejected,
}


def classify(prop, clause, events, line, known):
    for k in known:
        if k.get("status") != "known" or k["property"] != prop:
            continue
        if k.get("clause") not in (None, "*", clause):
            continue
        fn = WITNESS.get(k["witness"])
        if fn is not None and fn(events, line):
            return k
    return None


def check(prop, tier, seed, replay):
    t0 = time.time()
    res = eng_intents.run(prop, tier, seed, replay)
    verdict, events, behs = res["verdict"], res["events"], res["behaviours"]
    known = vlib.load_known()
    import collections
    summ = collections.Counter("%s.%s" % (b[0], b[1]) for b in verdict["bad"])
    log("failed clauses by kind: %s" % dict(summ))
    # timing safety (lifecycle family): a behaviour in which a call on an open short-timeout transaction
    # returned later than 60% of the timeout after the Set is not judged (the timer may have raced the call)
    unsafe = set()
    opened = {}
    for e in events:
        if e["ev"] == "init":
            opened[e["b"]] = None
        elif e["ev"] == "txset" and e["ret"] == "ok" and not e["dry"] and e["post"]["open"] != "-":
            opened[e["b"]] = e["tmo"]
        elif opened.get(e["b"]) is not None and e["ev"] in ("txset", "confirm", "cancel", "restart"):
            if opened[e["b"]] < 5000 and e.get("since", -1) > 0.6 * opened[e["b"]]:
                unsafe.add(e["b"])
        if e["post"]["open"] == "-":
            opened[e["b"]] = None
    if unsafe:
        log("timing-unsafe behaviours dropped: %d" % len(unsafe))
    if len(unsafe) > max(3, len(behs) // 10):
        raise Inconclusive("too many timing-unsafe behaviours (%d of %d): machine too loaded" % (len(unsafe), len(behs)))
    verdict["bad"] = [b for b in verdict["bad"] if step_of(events, b[2])["b"] not in unsafe]
    mine = [b for b in verdict["bad"] if b[0] == prop]
    model = [b for b in verdict["bad"] if b[0] == "M"]
    violations, knownhits = [], {}
    for (p, clause, line) in mine:
        ev = step_of(events, line)
        beh = behaviour_of(behs, ev)
        k = classify(p, clause, events, line, known)
        if k is not None:
            knownhits.setdefault(k["id"], [k, 0])[1] += 1
            continue
        violations.append((clause, line, ev, beh))
    # model/harness sanity clauses are not verdicts; they are reported and make the run inconclusive
    # only if they concern steps of this property's violations (possible model drift)
    nt = verdict["nt"].get(prop, 0)
    design = res["design"]
    samples = []
    for b in behs[:2]:
        samples.append(dict(behaviour=b))
    for ev in events[1:3]:
        samples.append(dict(trace_event={k: ev[k] for k in ("ev", "id", "ret", "intents", "sets", "post") if k in ev}))
    cov = dict(
        states=sum(d["states"] for d in design) or 1, transitions=sum(d["transitions"] for d in design) or 1,
        traces_validated_against_impl=len(behs), samples=samples,
        evaluations=verdict["total"], distinct_nontrivial=nt, rule=NT_RULE[prop],
        design_models=design, failed_clauses_this_property=len(mine), model_sanity_failures=len(model),
        failed_clauses_other_properties=len(verdict["bad"]) - len(mine) - len(model),
        known_findings_hit={k: v[1] for k, v in knownhits.items()},
        checker_cmd="tlc IntentsTrace.tla (trace validation) + tlc MCIntents.tla (design) + tlc -simulate IntentsGen.tla (generation)",
        exhaustive=False)
    rc = 0
    for kid, (k, n) in sorted(knownhits.items()):
        print("KNOWN-FINDING: property=%s %s (%s; %d steps)" % (prop, k["what"], kid, n))
    seen = set()
    for (clause, line, ev, beh) in violations:
        # one replay file per failing behaviour
        if beh is None or beh["id"] in seen:
            continue
        seen.add(beh["id"])
        # cut the behaviour after the failing step (minimal reproducer)
        cut = dict(beh)
        cut["steps"] = beh["steps"][:ev["i"]]
        path = vlib.save_replay(prop, clause, cut, dict(clause=clause, step=ev["i"], event=ev))
        print("VIOLATION property=%s replay=%s" % (prop, path))
        log("  clause %s at step %d of %s: ret=%s" % (clause, ev["i"], beh["id"], ev.get("ret")))
        rc = 1
        if len(seen) >= 5:
            break
    if rc == 0 and replay is None and nt == 0:
        vlib.write_evidence(prop, tier, seed, LEVEL, cov, ASSUME, 0, time.time() - t0)
        raise Inconclusive("vacuous run: no non-trivial step for %s" % prop)
    vlib.write_evidence(prop, tier, seed, LEVEL, cov, ASSUME, len(violations), time.time() - t0)
    return rc
