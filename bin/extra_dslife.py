#!/usr/bin/env python3
"""Growth beyond the listed properties: the datastore life cycle (spec/DsLife.tla).

  bin/extra_dslife.py [quick|thorough]

1. TLC checks DsLife for the protocol as it is (StopResolves = FALSE; the expected counterexample to DeletedIsSilent
   with targets that accept calls after Close, none with targets that refuse them) and for the candidate protocol
   (StopResolves = TRUE; DeletedIsSilent and ArmedOnlyWhileRegistered hold).
2. every behaviour of DsLife up to Depth steps (TLC, DsLifeGen) is replayed on real Datastore objects, once with a
   target connection that keeps accepting calls after Close and once with one that refuses them.
3. the recorded trace is validated against DsLifeTrace for both protocols: the code has to be a behaviour of one.
4. binding self-test: one corrupted line makes the validation fail at that line.

Not registered in MANIFEST.json (no listed property speaks about deleting a datastore): prints OBSERVATION lines,
exit 0 when the code follows one of the two protocol models, exit 2 otherwise (the model does not describe the code).
"""
import json, os, re, shutil, sys
sys.path.insert(0, os.path.dirname(os.path.abspath(__file__)))
import vlib
from vlib import log, Inconclusive


def design(cfg, expect_violation):
    wd = vlib.scratch("dslife")
    try:
        rc, out = vlib.tlc("DsLife.tla", cfg, wd, workers=2, timeout=120)
    finally:
        shutil.rmtree(wd, ignore_errors=True)
    viol = "Invariant DeletedIsSilent is violated" in out
    m = vlib.TLC_STATS.search(out)
    log("design %s: %s, %s" % (cfg, "DeletedIsSilent violated" if viol else "invariants hold", m.group(0) if m else "?"))
    if viol != expect_violation or (not viol and rc != 0):
        raise Inconclusive("DsLife %s: unexpected TLC outcome\n%s" % (cfg, out[-2000:]))
    trace = re.findall(r"^State \d+: <(\w+(?:\([^)]*\))?) line", out, re.M)
    return trace


def generate(depth):
    wd = vlib.scratch("dslife")
    try:
        src = open(os.path.join(vlib.SPEC, "DsLifeGen.cfg")).read()
        open(os.path.join(wd, "DsLifeGenD.cfg"), "w").write(src.replace("Depth = 6", "Depth = %d" % depth))
        rc, out = vlib.tlc("DsLifeGen.tla", "DsLifeGenD.cfg", wd, workers=1, timeout=600)
    finally:
        shutil.rmtree(wd, ignore_errors=True)
    behs = []
    for m in re.finditer(r'<<"BEH", "(.*)">>', out):
        steps = json.loads(json.loads('"' + m.group(1) + '"'))
        for refuse in (False, True):
            behs.append({"id": "b%d" % (len(behs) + 1), "refuse": refuse, "steps": steps})
    if not behs:
        raise Inconclusive("no behaviours generated\n" + out[-2000:])
    return behs


def validate(trace_file, stop_resolves):
    wd = vlib.scratch("dslife")
    try:
        rc, out = vlib.tlc("DsLifeTrace.tla", "DsLifeTrace_%s.cfg" % ("TRUE" if stop_resolves else "FALSE"), wd, workers=1,
                           env={"VERIF_TRACE": trace_file}, timeout=600)
    finally:
        shutil.rmtree(wd, ignore_errors=True)
    m = re.search(r'<<"HIGHWATER", (\d+), (\d+)>>', out)
    if not m:
        raise Inconclusive("trace validation did not finish\n" + out[-2000:])
    return int(m.group(1)), int(m.group(2))


def main():
    tier = sys.argv[1] if len(sys.argv) > 1 else "quick"
    depth = 6 if tier == "quick" else 8
    cex = design("DsLife_asis.cfg", True)
    design("DsLife_asis_refusing.cfg", False)
    design("DsLife_fixed.cfg", False)
    log("counterexample of the protocol as it is: " + " -> ".join(cex))
    binary = vlib.build_harness()
    behs = generate(depth)
    log("%d behaviours (depth %d, both target kinds)" % (len(behs), depth))
    wd = vlib.scratch("dslife")
    try:
        tf = os.path.join(wd, "trace.ndjson")
        vlib.run_harness(binary, "dslife", behs, tf)
        events = vlib.read_ndjson(tf)
        res = {}
        for sr in (False, True):
            hw, n = validate(tf, sr)
            res[sr] = (hw == n + 1, hw)
            log("validated against StopResolves=%s: %s" % (sr, "accepted (%d lines)" % n if hw == n + 1 else "rejected at line %d: %s" % (hw, json.dumps(events[hw - 1]))))
        follows = [sr for sr in res if res[sr][0]]
        if not follows:
            print("INCONCLUSIVE: the code follows neither protocol model of DsLife")
            return 2
        # binding self-test: corrupt the device value of a line in the middle
        k = next(i for i, e in enumerate(events) if i > len(events) // 2 and e["act"] == "Set")
        bad = [dict(e) for e in events]
        bad[k]["device"] = "b" if bad[k]["device"] != "b" else "a"
        cf = os.path.join(wd, "corrupt.ndjson")
        with open(cf, "w") as fh:
            for e in bad:
                fh.write(json.dumps(e) + "\n")
        hw, n = validate(cf, follows[0])
        if hw != k + 1:
            print("INCONCLUSIVE: corrupted line %d not rejected where expected (high water %d)" % (k + 1, hw))
            return 2
        log("binding self-test: corrupted line %d rejected there" % (k + 1))
        # where a deleted datastore acted again in the real runs
        ghosts = [e for i, e in enumerate(events) if e["act"] == "TimerFire" and i > 0 and events[i - 1]["b"] == e["b"]
                  and (e["cache"] != events[i - 1]["cache"] or e["device"] != events[i - 1]["device"])
                  and deleted_before(events, i)]
        if False in follows:
            print("OBSERVATION: data-server follows the DsLife protocol with StopResolves=FALSE: Datastore.Stop / DeleteDataStore "
                  "leaves the rollback timer of an unconfirmed transaction armed; %d replayed steps show the deleted datastore "
                  "writing to the device or to the cache of a re-created datastore of the same name (only with a target that "
                  "accepts Set after Close: %s)" % (len(ghosts), all(not e["refuse"] for e in ghosts)))
        else:
            print("OBSERVATION: data-server follows the DsLife protocol with StopResolves=TRUE (a deleted datastore is silent)")
        return 0
    finally:
        shutil.rmtree(wd, ignore_errors=True)


def deleted_before(events, i):
    """the incarnation whose timer fires at events[i] was deleted earlier in the behaviour"""
    e = events[i]
    j = i - 1
    while j >= 0 and events[j]["b"] == e["b"]:
        if events[j]["act"] == "Delete" and events[j]["i"] == e["i"]:
            return True
        j -= 1
    return False


if __name__ == "__main__":
    try:
        sys.exit(main())
    except Inconclusive as x:
        print("INCONCLUSIVE: %s" % x)
        sys.exit(2)
