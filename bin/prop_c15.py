"""C15: deviation reports are exact.  TLC enumerates the store contents of Deviation.tla (intended x running over a
small schema, 0..3 intents per path, agreeing / differing / missing values, several leaf types, prefix related paths);
each state is written to the real cache, one real deviation cycle is run (verif hook), the messages are validated
by TLC against the specification's Expected set (DeviationTrace.tla)."""
import json, os, random, re, shutil, time
import vlib
from vlib import log, Inconclusive

STATE = re.compile(r'^<<"DEVSTATE", "(.*)">>$')
# (Leaves definition, Vals definition, gamma)
SPACES = {
    "quick": [("L1", "ValsL1", "g0", None), ("L1u", "ValsL1u", "g0", None), ("L1b", "ValsL1b", "g0", None), ("L1l", "ValsL1l", "g0", None),
              ("L2", "ValsL2", "g0", 220), ("L2k", "ValsL2k", "g1", 220)],
    "thorough": [("L1", "ValsL1", "g0", None), ("L1u", "ValsL1u", "g0", None), ("L1b", "ValsL1b", "g0", None), ("L1l", "ValsL1l", "g0", None),
                 ("L2", "ValsL2", "g0", None), ("L2k", "ValsL2k", "g1", None), ("L2k", "ValsL2k", "g2", 1500)],
}
ASSUME = [
    "store contents are written directly through the cache client (intended entries per owner/priority, running entries), then ONE real cycle is triggered through the verif hook (the production ticker fires every 30 s)",
    "values are compared as canonical datums (alpha of harness/uni)",
    "priorities of distinct owners are pairwise distinct",
]


def cfg_text(leaves, vals, gen):
    inv = "INVARIANT Emit" if gen else "INVARIANTS SilentWhenAgreeing ReportedIffDeviates OneNotAppliedPerPath"
    return ("SPECIFICATION Spec\nCONSTANTS\n  Leaves <- %s\n  Owners = {\"A\", \"B\", \"C\"}\n  PrioOf <- MCPrio\n  Vals <- %s\n%s\nCHECK_DEADLOCK FALSE\n" % (leaves, vals, inv))


def enumerate_states(tier, seed):
    wd = vlib.scratch("dev")
    rnd = random.Random(seed)
    states, design = [], dict(states=0, transitions=0, module="Deviation.tla", cfg="")
    try:
        vlib.spec_copy(wd)
        for (leaves, vals, gamma, sample) in SPACES[tier]:
            with open(os.path.join(wd, "d.cfg"), "w") as fh:
                fh.write(cfg_text(leaves, vals, False))
            rc, out = vlib.tlc("MCDeviation.tla", "d.cfg", wd, workers=8, timeout=600)
            m = None
            for m in vlib.TLC_STATS.finditer(out):
                pass
            if "No error has been found" not in out or m is None:
                raise Inconclusive("Deviation design check failed (%s):\n%s" % (leaves, out[-2000:]))
            design["states"] += int(m.group(2).replace(",", ""))
            design["transitions"] += int(m.group(1).replace(",", ""))
            design["cfg"] += leaves + " "
            with open(os.path.join(wd, "g.cfg"), "w") as fh:
                fh.write(cfg_text(leaves, vals, True))
            rc, out = vlib.tlc("MCDeviation.tla", "g.cfg", wd, workers=1, timeout=900)
            got = []
            for line in out.splitlines():
                mm = STATE.match(line.strip())
                if mm:
                    d = json.loads(json.loads('"' + mm.group(1) + '"'))
                    got.append(d)
            if not got:
                raise Inconclusive("no states for %s:\n%s" % (leaves, out[-1500:]))
            total = len(got)
            if sample and len(got) > sample:
                rnd.shuffle(got)
                got = got[:sample]
            for k, d in enumerate(got):
                running = d["running"]
                if isinstance(running, dict):
                    run = sorted([[l, v] for l, v in running.items() if v != "absent"])
                else:
                    run = []
                states.append(dict(id="%s-%s-%d" % (leaves, gamma, k), gamma=gamma,
                                   intended=sorted([[x["o"], x["p"], x["l"], x["v"]] for x in d["intended"]]), running=run,
                                   space=leaves, space_size=total))
        return design, states
    finally:
        shutil.rmtree(wd, ignore_errors=True)


def check(prop, tier, seed, replay):
    t0 = time.time()
    vh = vlib.build_harness()
    wd = vlib.scratch("c15")
    try:
        if replay is None:
            design, states = enumerate_states(tier, seed)
            log("Deviation.tla: %d states; %d store contents to replay" % (design["states"], len(states)))
        else:
            design = None
            with open(replay) as fh:
                states = [json.load(fh)["behaviour"]]
        import concurrent.futures
        nproc = 8 if len(states) > 32 else 1
        parts = [states[i::nproc] for i in range(nproc)]
        outs = []

        def runpart(i):
            sf = os.path.join(wd, "s%d.ndjson" % i)
            with open(sf, "w") as fh:
                for s in parts[i]:
                    fh.write(json.dumps({k: s[k] for k in ("id", "gamma", "intended", "running")}) + "\n")
            of = os.path.join(wd, "t%d.ndjson" % i)
            rc, out = vlib.run([vh, "deviation", "-in", sf, "-out", of], env=dict(TMPDIR=wd), timeout=3000)
            if rc != 0:
                raise Inconclusive("vh deviation failed:\n" + out[-3000:])
            return of
        with concurrent.futures.ThreadPoolExecutor(nproc) as ex:
            outs = list(ex.map(runpart, range(nproc)))
        trace = os.path.join(wd, "trace.ndjson")
        with open(trace, "w") as fo:
            for o in outs:
                with open(o) as fi:
                    shutil.copyfileobj(fi, fo)
        verdict = vlib.tlc_trace("DeviationTrace.tla", "DeviationTrace.cfg", trace)
        events = vlib.read_ndjson(trace)
    finally:
        shutil.rmtree(wd, ignore_errors=True)
    import collections
    log("cycles=%d failed clauses: %s nt=%s" % (verdict["total"], dict(collections.Counter(b[1] for b in verdict["bad"])), verdict["nt"]))
    byid = {s["id"]: s for s in states}
    nt = verdict["nt"]
    cov = dict(states=design["states"] if design else 1, transitions=design["transitions"] if design else 1,
               traces_validated_against_impl=len(states), evaluations=len(states), distinct_nontrivial=nt["allreasons"],
               rule="store contents enumerated by TLC from Deviation.tla (every combination of 0..3 intents per path with agreeing/differing/missing values against the running value; string, uint, boolean, leaf-list leaves; prefix related leaf names and list keys); non-trivial = the expected message set contains all three reasons (counted by the trace spec); cycles with a non-empty expected set: %d" % nt["nonempty"],
               samples=[dict(state={k: s[k] for k in ("intended", "running")}) for s in states[:2]] + [dict(messages=events[0]["msgs"])],
               design_models=[design] if design else [], exhaustive=(tier == "thorough"))
    rc, seen = 0, set()
    for (p, clause, line) in verdict["bad"]:
        e = events[line - 1]
        if e["b"] in seen:
            continue
        seen.add(e["b"])
        s = byid[e["b"]]
        path = vlib.save_replay("C15", clause, {k: s[k] for k in ("id", "gamma", "intended", "running")}, dict(clause=clause, msgs=e["msgs"]))
        print("VIOLATION property=C15 replay=%s" % path)
        log("  clause %s: intended=%s running=%s msgs=%s" % (clause, s["intended"], s["running"], [(m["reason"], m["intent"], m["l"], m["exp"], m["cur"]) for m in e["msgs"] if m["event"] == "UPDATE"]))
        rc = 1
        if len(seen) >= 5:
            break
    if rc == 0 and replay is None and nt["allreasons"] < 2:
        raise Inconclusive("vacuous run")
    vlib.write_evidence("C15", tier, seed, "model_checking", cov, ASSUME, len(verdict["bad"]), time.time() - t0)
    return rc
