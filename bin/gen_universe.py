#!/usr/bin/env python3
"""Generate schema/universe.json and spec/UniverseData.tla (single source of truth for TLC and Go).

Abstract leaf ids and their concrete instance paths in the verification schema
(schema/yang).  Key values are placeholders ($k1 ...) resolved per gamma variant.
"""
import json, os, sys

ROOT = os.path.dirname(os.path.dirname(os.path.abspath(__file__)))

# gamma variants: abstract key placeholder -> concrete key value.  g0 is benign, the others are
# adversarial (prefix related, separator characters).  ',' is excluded (cache delimiter),
# regex metacharacters are excluded from variants used by engines that read through the cache.
GAMMAS = {
    "g0": {"m1": "m1", "m2": "m2", "k1": "e1", "k2": "e2", "z1": "zA", "a1": "aB", "z2": "zC", "a2": "aD", "t1": "t1", "t2": "t2", "t3": "t3"},
    "g1": {"m1": "a", "m2": "ab", "k1": "eth1", "k2": "eth10", "z1": "a", "a1": "b", "z2": "aa", "a2": "bb", "t1": "x", "t2": "y", "t3": "z"},
    "g2": {"m1": "m_1", "m2": "m", "k1": "x_y", "k2": "x", "z1": "a_b", "a1": "c", "z2": "a", "a2": "b_c", "t1": "1", "t2": "1_1", "t3": "11"},
    "g3": {"m1": "a/b", "m2": "b", "k1": "a/b", "k2": "a", "z1": "p:q", "a1": "r s", "z2": "p", "a2": "q=r", "t1": "a/b", "t2": "b", "t3": "a"},
}

def L(id, elems, typ, vals, entry=None, key=None, choice=None, case=None, default=None, kind="leaf", ns=None, state=False, fam=(), bad=()):
    # bad: [[datum, constraint class]] values that violate a leaf-local constraint (range, length, pattern, maxelements)
    return dict(id=id, elems=elems, type=typ, vals=vals, entry=entry, key=key, choice=choice, case=case,
                default=default, kind=kind, state=state, fam=list(fam), bad=[list(b) for b in bad])

def item(k): return ["item", [["name", "$" + k]]]
def mitem(k): return ["mitem", [["name", "$" + k]]]
PAIR1 = ["pair", [["zone", "$z1"], ["app", "$a1"]]]
PAIR2 = ["pair", [["zone", "$z2"], ["app", "$a2"]]]
TRI1 = ["triple", [["k3", "$t3"], ["k1", "$t1"], ["k2", "$t2"]]]
S = ["s:a", "s:b"]

LEAVES = [
    # single key list, two entries
    L("i1.name", [item("k1"), ["name", []]], "string", ["key"], entry="i1", key="k1", fam=["core", "choice", "dflt", "valid"]),
    L("i1.val", [item("k1"), ["val", []]], "string", S, entry="i1", fam=["core", "dflt"]),
    L("i1.y_val", [item("k1"), ["y_val", []]], "string", S, entry="i1", fam=["core"]),
    L("i1.mtu", [item("k1"), ["mtu", []]], "uint16", ["u:1500", "u:9000"], entry="i1", fam=["valid"], bad=[["u:10", "range"]]),
    L("i1.mode", [item("k1"), ["mode", []]], "enumeration", ["en:on", "en:off"], entry="i1", default="en:on", fam=["dflt"]),
    L("i1.tcp", [item("k1"), ["tcp-port", []]], "uint16", ["u:80", "u:81"], entry="i1", choice="i1.transport", case="tcp", fam=["choice"]),
    L("i1.udp", [item("k1"), ["udp-port", []]], "uint16", ["u:53", "u:54"], entry="i1", choice="i1.transport", case="udp", fam=["choice"]),
    L("i1.xval", [item("k1"), ["xval", []]], "string", S, entry="i1", fam=["ns"]),
    L("i2.name", [item("k2"), ["name", []]], "string", ["key"], entry="i2", key="k2", fam=["core", "valid"]),
    L("i2.val", [item("k2"), ["val", []]], "string", S, entry="i2", fam=["core"]),
    # list whose entries have a mandatory leaf (an entry may be removed as a whole)
    L("m1.name", [mitem("m1"), ["name", []]], "string", ["key"], entry="m1", key="m1", fam=["mand"]),
    L("m1.req", [mitem("m1"), ["req", []]], "string", S, entry="m1", fam=["mand"]),
    L("m1.opt", [mitem("m1"), ["opt", []]], "string", S, entry="m1", fam=["mand"]),
    L("m2.name", [mitem("m2"), ["name", []]], "string", ["key"], entry="m2", key="m2", fam=["mand"]),
    L("m2.req", [mitem("m2"), ["req", []]], "string", S, entry="m2", fam=["mand"]),
    L("m2.opt", [mitem("m2"), ["opt", []]], "string", S, entry="m2", fam=["mand"]),
    # a leaf-list of a string type with length and pattern
    L("pl.names", [["plain", []], ["names", []]], "leaf-list:string", ["ll:s:ab", "ll:s:ab|s:cd"], kind="leaflist", fam=["mand"], bad=[["ll:s:ab|s:abcdef", "length"], ["ll:s:zz|s:a1", "pattern"]]),
    # two-key list, keys declared non-alphabetically
    L("p1.zone", [PAIR1, ["zone", []]], "string", ["key"], entry="p1", key="z1", fam=["mkey"]),
    L("p1.app", [PAIR1, ["app", []]], "string", ["key"], entry="p1", key="a1", fam=["mkey"]),
    L("p1.weight", [PAIR1, ["weight", []]], "uint8", ["u:10", "u:20"], entry="p1", fam=["mkey"]),
    L("p2.zone", [PAIR2, ["zone", []]], "string", ["key"], entry="p2", key="z2", fam=["mkey"]),
    L("p2.app", [PAIR2, ["app", []]], "string", ["key"], entry="p2", key="a2", fam=["mkey"]),
    L("p2.weight", [PAIR2, ["weight", []]], "uint8", ["u:10", "u:20"], entry="p2", fam=["mkey"]),
    L("t1.k1", [TRI1, ["k1", []]], "string", ["key"], entry="t1", key="t1", fam=["mkey3"]),
    L("t1.k2", [TRI1, ["k2", []]], "string", ["key"], entry="t1", key="t2", fam=["mkey3"]),
    L("t1.k3", [TRI1, ["k3", []]], "string", ["key"], entry="t1", key="t3", fam=["mkey3"]),
    L("t1.v", [TRI1, ["v", []]], "string", S, entry="t1", fam=["mkey3"]),
    # plain container without defaults / constraints (core family)
    L("pl.a", [["plain", []], ["a", []]], "string", S, fam=["core", "choice", "mkey", "pres"]),
    L("pl.ab", [["plain", []], ["ab", []]], "string", S, fam=["core"]),
    L("pl.s", [["plain", []], ["sub", []], ["s", []]], "string", S, fam=["core"]),
    L("pl.n", [["plain", []], ["n", []]], "uint16", ["u:1", "u:10"], fam=["valid", "cross"], bad=[["u:11", "range"]]),
    # must statements with a signed operand, and onto a default below a container nobody instantiates
    L("pl.lim", [["plain", []], ["lim", []]], "int8", ["i:-7", "i:3"], fam=["mustx"]),
    L("pl.lcheck", [["plain", []], ["lcheck", []]], "boolean", ["b:true"], fam=["mustx"]),
    # a leaf-list with max-elements only (no min-elements)
    L("pl.ml", [["plain", []], ["ml", []]], "leaf-list:string", ["ll:s:t1", "ll:s:t1|s:t2"], kind="leaflist", fam=["mustx"], bad=[["ll:s:t1|s:t2|s:t3", "maxelements"]]),
    L("pl.gcheck", [["plain", []], ["gcheck", []]], "boolean", ["b:true"], fam=["mustx"]),
    L("g.limit", [["glob", []], ["limit", []]], "uint8", ["u:1", "u:5"], default="u:2", fam=["mustx"]),
    # sys: constraints, defaults, presence, second namespace
    L("s.host", [["sys", []], ["host", []]], "string", ["s:abc", "s:h2"], fam=["valid", "dflt", "cross"], bad=[["s:abcdefghij", "length"], ["s:1abc", "pattern"]]),
    L("s.hostname", [["sys", []], ["hostname", []]], "string", S, fam=["valid"]),
    L("s.desc", [["sys", []], ["desc", []]], "string", ["s:none", "s:d"], default="s:none", fam=["dflt"]),
    L("s.primary", [["sys", []], ["primary", []]], "leafref", ["s:$k1", "s:$k2"], fam=["valid"]),
    # require-instance false: a dangling reference is a warning, never an error
    L("s.secondary", [["sys", []], ["secondary", []]], "leafref", ["s:$k1", "s:nosuch"], fam=["cross"]),
    L("s.guard", [["sys", []], ["guard", []]], "boolean", ["b:true", "b:false"], fam=["valid", "cross"]),
    L("s.tags", [["sys", []], ["tags", []]], "leaf-list:string", ["ll:s:t1", "ll:s:t1|s:t2"], kind="leaflist", fam=["valid", "pres"], bad=[["ll:s:t1|s:t2|s:t3", "maxelements"]]),
    L("s.feat", [["sys", []], ["feat", []]], "presence", ["e:"], kind="presence", fam=["dflt", "pres"]),
    L("s.feat.level", [["sys", []], ["feat", []], ["level", []]], "uint8", ["u:1", "u:2"], default="u:1", fam=["dflt", "pres"]),
    L("s.svc", [["sys", []], ["svc", []]], "presence", ["e:"], kind="presence", fam=["valid", "pres", "cross"]),
    L("s.svc.id", [["sys", []], ["svc", []], ["id", []]], "uint32", ["u:1", "u:2"], fam=["valid", "pres", "cross"]),
    L("s.svc.note", [["sys", []], ["svc", []], ["note", []]], "string", S, fam=["valid"]),
    L("s.ext", [["sys", []], ["ext", []]], "string", S, fam=["ns"]),
    L("s.xc.inner", [["sys", []], ["xc", []], ["inner", []]], "string", S, fam=["ns"]),
    L("s.xtags", [["sys", []], ["xtags", []]], "leaf-list:string", ["ll:s:t1", "ll:s:t1|s:t2", "ll:s:t3|s:t1|s:t2"], kind="leaflist", fam=["ns"]),
    L("ty.e", [["types", []], ["e", []]], "empty", ["e:"], fam=["pres", "types"]),
] + [
    # the value engine (C12): one leaf per YANG built-in type, boundary and interior datums
    L("ty." + n, [["types", []], [n, []]], t, v, fam=["types"], kind=("leaflist" if t.startswith("leaf-list:") else "leaf")) for n, t, v in [
    ("i8", "int8", ["i:-128", "i:127", "i:0", "i:-1"]),
    ("i16", "int16", ["i:-32768", "i:32767", "i:256"]),
    ("i32", "int32", ["i:-2147483648", "i:2147483647", "i:7"]),
    ("i64", "int64", ["i:-9223372036854775808", "i:9223372036854775807", "i:0", "i:4294967296"]),
    ("u8", "uint8", ["u:0", "u:255", "u:7"]),
    ("u16", "uint16", ["u:0", "u:65535"]),
    ("u32", "uint32", ["u:4294967295", "u:65536"]),
    ("u64", "uint64", ["u:18446744073709551615", "u:9223372036854775808", "u:0", "u:1"]),
    ("d2", "decimal64", ["d:0", "d:-0.01", "d:1.5", "d:3.14", "d:100", "d:-92233720368547758.08", "d:92233720368547758.07"]),
    ("d1", "decimal64", ["d:0.1", "d:-0.5", "d:922337203685477580.7", "d:-3"]),
    ("d18", "decimal64", ["d:0.000000000000000001", "d:-9.223372036854775808", "d:9.223372036854775807", "d:1"]),
    ("b", "boolean", ["b:true", "b:false"]),
    ("en", "enumeration", ["en:on", "en:off"]),
    ("idr", "identityref", ["id:red", "id:blue"]),
    ("un", "union", ["un:5", "un:-7", "un:auto", "un:hello", "un:5x"]),
    ("un2", "union", ["un:200", "un:true", "un:1.5", "un:-0.5"]),
    ("str", "string", ["s:", "s:a b", "s:5", "s:true", "s:%C3%BCn%C3%AF", "s:a%22b%5Cc%3C%26%3E%27d", "s: lead"]),
    ("bin", "binary", ["bin:aGVsbG8=", "bin:AA==", "bin:/+8="]),
    ("bits", "bits", ["bits:b0", "bits:b0 b1", "bits:b1"]),
    ("ll-u8", "leaf-list:uint8", ["ll:u:0|u:255", "ll:u:7", "ll:u:1|u:2|u:3"]),
    ("ll-str", "leaf-list:string", ["ll:s:a|s:b c", "ll:s:x", "ll:s:a|s:b"]),
    ("ll-d2", "leaf-list:decimal64", ["ll:d:-0.01|d:1.5", "ll:d:3.14"]),
    ("ll-i64", "leaf-list:int64", ["ll:i:-9223372036854775808|i:5", "ll:i:9223372036854775807"]),
    ("ll-en", "leaf-list:enumeration", ["ll:en:off|en:on", "ll:en:on"]),
    ("ll-idr", "leaf-list:identityref", ["ll:id:blue|id:red", "ll:id:red"]),
    ("ll-b", "leaf-list:boolean", ["ll:b:false|b:true", "ll:b:true"]),
    ]
] + [
    # top level choice with prefix related non member
    L("c.x", [["ch", []], ["alpha", []], ["x", []]], "string", S, choice="ch.kind", case="a", fam=["choice"]),
    L("c.y", [["ch", []], ["beta", []], ["y", []]], "string", S, choice="ch.kind", case="b", fam=["choice"]),
    L("c.y2", [["ch", []], ["beta", []], ["y2", []]], "string", S, choice="ch.kind", case="b", fam=["choice2"]),
    L("c.be", [["ch", []], ["beta-extra", []]], "string", S, choice="ch.kind", case="b", fam=["choice"]),
    L("c.z", [["ch", []], ["alphax", []], ["z", []]], "string", S, fam=["choice"]),
    # a case whose member is a list
    L("cp1.name", [["ch", []], ["peer", [["name", "$m1"]]], ["name", []]], "string", ["key"], entry="cp1", key="m1", choice="ch.kind", case="c", fam=["choice2"]),
    L("cp1.w", [["ch", []], ["peer", [["name", "$m1"]]], ["w", []]], "string", S, entry="cp1", choice="ch.kind", case="c", fam=["choice2"]),
    L("cp2.name", [["ch", []], ["peer", [["name", "$m2"]]], ["name", []]], "string", ["key"], entry="cp2", key="m2", choice="ch.kind", case="c", fam=["choice2"]),
    L("cp2.w", [["ch", []], ["peer", [["name", "$m2"]]], ["w", []]], "string", S, entry="cp2", choice="ch.kind", case="c", fam=["choice2"]),
]

# state (config false) leaves, only used by the read / sync engines
LEAVES += [
    L("i1.oper", [item("k1"), ["oper", []]], "string", S, entry="i1", state=True, fam=["state"]),
    L("i2.oper", [item("k2"), ["oper", []]], "string", S, entry="i2", state=True, fam=["state"]),
    L("s.uptime", [["sys", []], ["uptime", []]], "uint32", ["u:1", "u:2"], state=True, fam=["state"]),
]

# request / delete nodes (C13, C14): abstract node id -> path (list elements may carry all, some or no keys)
def N(id, elems):
    return dict(id=id, elems=elems)

NODES = [
    N("/", []),
    N("plain", [["plain", []]]), N("plain/a", [["plain", []], ["a", []]]), N("plain/ab", [["plain", []], ["ab", []]]), N("plain/sub", [["plain", []], ["sub", []]]),
    N("item", [["item", []]]), N("item[k1]", [item("k1")]), N("item[k2]", [item("k2")]),
    N("item[k1]/val", [item("k1"), ["val", []]]), N("item[k2]/val", [item("k2"), ["val", []]]),
    N("sys", [["sys", []]]), N("sys/host", [["sys", []], ["host", []]]), N("sys/hostname", [["sys", []], ["hostname", []]]),
    N("sys/svc", [["sys", []], ["svc", []]]), N("sys/tags", [["sys", []], ["tags", []]]),
    N("ch", [["ch", []]]), N("ch/alpha", [["ch", []], ["alpha", []]]), N("ch/alphax", [["ch", []], ["alphax", []]]),
    N("pair", [["pair", []]]), N("pair[z1]", [["pair", [["zone", "$z1"]]]]), N("pair[z1,a1]", [PAIR1]), N("pair[z2,a2]", [PAIR2]),
    N("item[k1]/oper", [item("k1"), ["oper", []]]), N("sys/uptime", [["sys", []], ["uptime", []]]),
]


def under(leaf, node, gamma):
    """structural at-or-below under a gamma (keys missing in the node's element are wildcards)"""
    le, ne = leaf["elems"], node["elems"]
    if len(ne) > len(le):
        return False
    res = lambda v: gamma.get(v[1:], v) if v.startswith("$") else v
    for a, b in zip(le, ne):
        if a[0] != b[0]:
            return False
        ak = {k: res(v) for k, v in a[1]}
        for k, v in b[1]:
            if ak.get(k) != res(v):
                return False
    return True


ENTRIES = {
    "i1": [item("k1")], "i2": [item("k2")], "m1": [mitem("m1")], "m2": [mitem("m2")], "cp1": [["ch", []], ["peer", [["name", "$m1"]]]], "cp2": [["ch", []], ["peer", [["name", "$m2"]]]], "p1": [PAIR1], "p2": [PAIR2], "t1": [TRI1],
}

def tla_str(s): return '"' + s.replace('\\', '\\\\').replace('"', '\\"') + '"'
def tla_set(xs): return "{" + ", ".join(tla_str(x) for x in xs) + "}"

def main():
    uni = dict(gammas=GAMMAS, entries=ENTRIES, leaves=LEAVES, nodes=NODES)
    os.makedirs(os.path.join(ROOT, "schema"), exist_ok=True)
    with open(os.path.join(ROOT, "schema", "universe.json"), "w") as f:
        json.dump(uni, f, indent=1, sort_keys=True)
        f.write("\n")
    fams = sorted({x for l in LEAVES for x in l["fam"]})
    out = []
    out.append("---------------------------- MODULE UniverseData ----------------------------")
    out.append("(* GENERATED by bin/gen_universe.py from the same table as schema/universe.json. Do not edit. *)")
    out.append("AllLeaf == " + tla_set(l["id"] for l in LEAVES))
    out.append("NoEntry == \"-\"")
    out.append("NoChoice == \"-\"")
    out.append("UEntryOf == [l \\in AllLeaf |-> CASE " +
               " [] ".join("l = %s -> %s" % (tla_str(l["id"]), tla_str(l["entry"] or "-")) for l in LEAVES) + "]")
    out.append("UKeyLeaf == " + tla_set(l["id"] for l in LEAVES if l["key"]))
    out.append("UChoiceOf == [l \\in AllLeaf |-> CASE " +
               " [] ".join("l = %s -> %s" % (tla_str(l["id"]), tla_str(l["choice"] or "-")) for l in LEAVES) + "]")
    out.append("UCaseOf == [l \\in AllLeaf |-> CASE " +
               " [] ".join("l = %s -> %s" % (tla_str(l["id"]), tla_str(l["case"] or "-")) for l in LEAVES) + "]")
    out.append("UVals == [l \\in AllLeaf |-> CASE " +
               " [] ".join("l = %s -> %s" % (tla_str(l["id"]), tla_set(l["vals"])) for l in LEAVES) + "]")
    out.append("UBad == {" + ", ".join("<<%s, %s, %s>>" % (tla_str(l["id"]), tla_str(b[0]), tla_str(b[1])) for l in LEAVES for b in l["bad"]) + "}")
    out.append("UDefault == [l \\in AllLeaf |-> CASE " +
               " [] ".join("l = %s -> %s" % (tla_str(l["id"]), tla_str(l["default"] or "-")) for l in LEAVES) + "]")
    out.append("AllNode == " + tla_set(n["id"] for n in NODES))
    # structural containment is gamma independent as long as gamma maps distinct placeholders to distinct values
    g0 = GAMMAS["g0"]
    for gname, g in GAMMAS.items():
        for n in NODES:
            for l in LEAVES:
                assert under(l, n, g) == under(l, n, g0), (gname, n["id"], l["id"])
    out.append("UUnder == [n \\in AllNode |-> CASE " +
               " [] ".join("n = %s -> %s" % (tla_str(n["id"]), tla_set(l["id"] for l in LEAVES if under(l, n, g0))) for n in NODES) + "]")
    def pres_parent(l):
        for q in LEAVES:
            if q["kind"] == "presence" and q is not l and len(q["elems"]) < len(l["elems"]) and l["elems"][:len(q["elems"])] == q["elems"]:
                return q["id"]
        return "-"
    out.append("UPresenceParent == [l \\in AllLeaf |-> CASE " +
               " [] ".join("l = %s -> %s" % (tla_str(l["id"]), tla_str(pres_parent(l))) for l in LEAVES) + "]")
    out.append("UStateLeaf == " + tla_set(l["id"] for l in LEAVES if l["state"]))
    for fam in fams:
        out.append("Fam_%s == %s" % (fam, tla_set(l["id"] for l in LEAVES if fam in l["fam"])))
    out.append("=============================================================================")
    with open(os.path.join(ROOT, "spec", "UniverseData.tla"), "w") as f:
        f.write("\n".join(out) + "\n")

if __name__ == "__main__":
    main()
