"""C19: streaming RPCs end when their client does.  TLC checks NoPanic, EndsWhenClientDoes (liveness under weak
fairness) and NoStuckReporter on Streams.tla (goroutine/channel structure of Subscribe) for 1..4 subscriptions and
enumerates the fault sequences of its behaviours; the real Datastore.Subscribe and Datastore.Get (with a forwarding
consumer as in Server.GetData) are run under each scenario at several fault positions with fake streams; TLC validates
the outcomes (StreamsTrace.tla)."""
import json, os, re, shutil, time
import vlib
from vlib import log, Inconclusive

LINE = re.compile(r'^<<"STREAMFAULTS", "(.*)">>$')
ASSUME = [
    "fake streams: Send fails / blocks / the context is cancelled once a given number of sends has happened; sample interval 3 ms (Datastore.Subscribe takes the interval as given)",
    "only the position of the fault is controlled, not every channel interleaving; the model's exhaustive run covers the interleavings",
    "goroutines are counted with runtime.NumGoroutine before the handler starts and after it returned and things settled",
]


def model(tier):
    wd = vlib.scratch("streams")
    tot = dict(states=0, transitions=0, module="Streams.tla", cfg="N in 1..%d, repaired protocol" % (3 if tier == "quick" else 4))
    scen = set()
    try:
        vlib.spec_copy(wd)
        for n in range(1, 4 if tier == "quick" else 5):
            base = "CONSTANTS\n  N = %d\n  ErrCap = %d\n  UseOnce = TRUE\n  MaxTicks = %d\n" % (n, n, 2 if n < 4 else 1)
            with open(os.path.join(wd, "s.cfg"), "w") as fh:
                fh.write("SPECIFICATION Spec\n" + base + "INVARIANTS NoPanic\nPROPERTIES EndsWhenClientDoes NoStuckReporter\nCHECK_DEADLOCK FALSE\n")
            rc, out = vlib.tlc("Streams.tla", "s.cfg", wd, workers=8, timeout=600)
            m = None
            for m in vlib.TLC_STATS.finditer(out):
                pass
            if "No error has been found" not in out or m is None:
                raise Inconclusive("Streams design check failed (N=%d):\n%s" % (n, out[-2000:]))
            tot["states"] += int(m.group(2).replace(",", ""))
            tot["transitions"] += int(m.group(1).replace(",", ""))
            with open(os.path.join(wd, "g.cfg"), "w") as fh:
                fh.write("SPECIFICATION GSpec\n" + base.replace("MaxTicks = 2", "MaxTicks = 1") + "INVARIANT Emit\nCHECK_DEADLOCK FALSE\n")
            rc, out = vlib.tlc("StreamsGen.tla", "g.cfg", wd, workers=1, timeout=600)
            for line in out.splitlines():
                mm = LINE.match(line.strip())
                if mm:
                    d = json.loads(json.loads('"' + mm.group(1) + '"'))
                    scen.add((d["n"], tuple(d["faults"])))
        return tot, sorted(scen)
    finally:
        shutil.rmtree(wd, ignore_errors=True)


def run_streams(vh, scripts, trace_out):
    wd = vlib.scratch("strun")
    try:
        sf = os.path.join(wd, "s.ndjson")
        with open(sf, "w") as fh:
            for s in scripts:
                fh.write(json.dumps(s) + "\n")
        tr = os.path.join(wd, "t.ndjson")
        rc, out = vlib.run([vh, "streams", "-in", sf, "-out", tr], env=dict(TMPDIR=wd), timeout=3000)
        evs = vlib.read_ndjson(tr) if os.path.exists(tr) else []
        res = [e for e in evs if e["ev"] == "stream"]
        if rc != 0:
            begun = [e for e in evs if e["ev"] == "begin"]
            if not begun:
                raise Inconclusive("vh streams failed:\n" + out[-2500:])
            # a panic of a production goroutine: recorded for the running script, the rest is not run in this part
            res.append(dict(ev="stream", b=begun[-1]["b"], panic=True, msg=out[-800:]))
        byid = {s["id"]: s for s in scripts}
        with open(trace_out, "w") as fh:
            for e in res:
                s = byid[e["b"]]
                e.setdefault("panic", False)
                for k, v in dict(handler=s["handler"], nsubs=s["nsubs"], faults=s["faults"], at=s["at"], returned=False, afterms=0, gdelta=0, sends=0, ret="").items():
                    e.setdefault(k, v)
                fh.write(json.dumps(e) + "\n")
    finally:
        shutil.rmtree(wd, ignore_errors=True)


def check(prop, tier, seed, replay):
    t0 = time.time()
    vh = vlib.build_harness()
    wd = vlib.scratch("c19")
    try:
        if replay is None:
            design, scen = model(tier)
            scripts = []
            positions = (7, 9, 14) if tier == "quick" else (0, 3, 7, 8, 9, 11, 14, 20)
            for (n, faults) in scen:
                fl = list(faults) if faults else ["exhaust"]
                for at in positions:
                    for gap in (0, 2):
                        if len(fl) < 2 and gap:
                            continue
                        scripts.append(dict(id="st-sub-%d-%s-%d-%d" % (n, "+".join(fl), at, gap), handler="subscribe", nsubs=n, faults=fl, at=at, gap=gap))
                # stalled consumer that is then cancelled
                scripts.append(dict(id="st-sub-%d-stall-%s" % (n, "+".join(fl)), handler="subscribe", nsubs=n, faults=["stall", "cancel"], at=8, gap=0))
            for n in (1, 2, 3, 4):
                for fl in (["exhaust"], ["cancel"], ["fail"], ["stall", "cancel"]):
                    for at in (0, 1, 3):
                        scripts.append(dict(id="st-get-%d-%s-%d" % (n, "+".join(fl), at), handler="get", nsubs=n, faults=fl, at=at, gap=0))
            # dedup ids
            seen, uniq = set(), []
            for s in scripts:
                if s["id"] not in seen:
                    seen.add(s["id"])
                    uniq.append(s)
            scripts = uniq
            log("Streams.tla: %d states; %d fault scenarios -> %d scripts" % (design["states"], len(scen), len(scripts)))
        else:
            design = None
            with open(replay) as fh:
                scripts = [json.load(fh)["behaviour"]]
        import concurrent.futures
        nproc = min(6, max(1, len(scripts) // 6))
        parts = [scripts[i::nproc] for i in range(nproc)]
        outs = [os.path.join(wd, "t%d.ndjson" % i) for i in range(nproc)]
        with concurrent.futures.ThreadPoolExecutor(nproc) as ex:
            list(ex.map(lambda a: run_streams(vh, a[0], a[1]), zip(parts, outs)))
        trace = os.path.join(wd, "trace.ndjson")
        with open(trace, "w") as fo:
            for o in outs:
                with open(o) as fi:
                    shutil.copyfileobj(fi, fo)
        verdict = vlib.tlc_trace("StreamsTrace.tla", "StreamsTrace.cfg", trace)
        events = vlib.read_ndjson(trace)
    finally:
        shutil.rmtree(wd, ignore_errors=True)
    import collections
    log("runs=%d failed clauses: %s nt=%s" % (verdict["total"], dict(collections.Counter(b[1] for b in verdict["bad"])), verdict["nt"]))
    if replay is None and verdict["total"] < len(scripts) * 0.9:
        raise Inconclusive("only %d of %d scripts produced an outcome" % (verdict["total"], len(scripts)))
    nt = verdict["nt"]
    byid = {s["id"]: s for s in scripts}
    cov = dict(evaluations=len(scripts), distinct_nontrivial=nt["multi"],
               rule="fault sequences of the behaviours of Streams.tla (cancel, failing sends by one or several goroutines, combinations) for 1..4 subscriptions, each at several fault positions, plus stalled consumers and exhausted data, on Datastore.Subscribe and Datastore.Get; non-trivial = at least two goroutines alive at the fault (>= 2 subscriptions/paths and a fault)",
               samples=[dict(script=s) for s in scripts[:2]] + [dict(outcome=events[0])],
               states=design["states"] if design else 1, transitions=design["transitions"] if design else 1, traces_validated_against_impl=len(events),
               design_models=[design] if design else [], exhaustive=False)
    rc, seen = 0, set()
    for (p, clause, line) in verdict["bad"]:
        e = events[line - 1]
        if e["b"] in seen:
            continue
        seen.add(e["b"])
        path = vlib.save_replay("C19", clause, byid[e["b"]], dict(clause=clause, outcome=e))
        print("VIOLATION property=C19 replay=%s" % path)
        log("  clause %s: %s nsubs=%s faults=%s at=%s returned=%s after=%sms gdelta=%s panic=%s" % (clause, e["handler"], e["nsubs"], e["faults"], e["at"], e["returned"], e["afterms"], e["gdelta"], e["panic"]))
        rc = 1
        if len(seen) >= 6:
            break
    if rc == 0 and replay is None and nt["multi"] < 2:
        raise Inconclusive("vacuous run")
    vlib.write_evidence("C19", tier, seed, "fault_enumeration", cov, ASSUME, len(verdict["bad"]), time.time() - t0)
    return rc
