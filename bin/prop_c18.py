"""C18: NETCONF edits are committed once or discarded.  TLC checks the C18 invariants on Netconf.tla for both
commit-datastore settings and both document kinds and enumerates every outcome at every driver call; the real
ncTarget.Set (built around a fake netconf.Driver through the verif constructor) is driven through each behaviour for
all 8 option combinations; TLC validates the recorded call sequences against the model (NetconfTrace.tla)."""
import itertools, json, os, re, shutil, time
import vlib
from vlib import log, Inconclusive

LINE = re.compile(r'^<<"NCBEH", "(.*)">>$')
ASSUME = [
    "the fake driver honours the contract of the scrapligo adapter: rpc-errors surface as errors, a dead connection as an error containing EOF after which IsAlive is false",
    "change documents are stubs (empty / one element): the content of the XML rendering belongs to C10",
]


def enumerate_behaviours():
    wd = vlib.scratch("nc")
    tot = dict(states=0, transitions=0, module="Netconf.tla", cfg="candidate|running x empty|nonempty")
    behs = []
    try:
        vlib.spec_copy(wd)
        for c in ("candidate", "running"):
            for d in ("empty", "nonempty"):
                rc, out = vlib.tlc("NetconfGen.tla", "Netconf_%s_%s.cfg" % (c, d), wd, workers=1, timeout=120)
                m = None
                for m in vlib.TLC_STATS.finditer(out):
                    pass
                if "No error has been found" not in out or m is None:
                    raise Inconclusive("Netconf design check failed (%s,%s):\n%s" % (c, d, out[-2000:]))
                tot["states"] += int(m.group(2).replace(",", ""))
                tot["transitions"] += int(m.group(1).replace(",", ""))
                for line in out.splitlines():
                    mm = LINE.match(line.strip())
                    if mm:
                        behs.append(json.loads(json.loads('"' + mm.group(1) + '"')))
        return tot, behs
    finally:
        shutil.rmtree(wd, ignore_errors=True)


def check(prop, tier, seed, replay):
    t0 = time.time()
    vh = vlib.build_harness()
    wd = vlib.scratch("c18")
    try:
        if replay is None:
            design, behs = enumerate_behaviours()
            scripts = []
            for k, b in enumerate(behs):
                for o in itertools.product([False, True], repeat=3):
                    scripts.append(dict(id="nc-%d-%s" % (k, "".join("1" if x else "0" for x in o)), commitds=b["commitds"], doc=b["doc"], plan=list(b["plan"]),
                                        opts=list(o), exp=dict(calls=[dict(c) for c in b["calls"]], ret=b["ret"])))
            log("Netconf.tla: %d states, %d behaviours x 8 option sets = %d scripts" % (design["states"], len(behs), len(scripts)))
        else:
            design = None
            with open(replay) as fh:
                scripts = [json.load(fh)["behaviour"]]
        sf, of = os.path.join(wd, "s.ndjson"), os.path.join(wd, "t.ndjson")
        with open(sf, "w") as fh:
            for s in scripts:
                fh.write(json.dumps({k: s[k] for k in ("id", "commitds", "doc", "plan", "opts")}) + "\n")
        rc, out = vlib.run([vh, "netconf", "-in", sf, "-out", of], env=dict(TMPDIR=wd), timeout=600)
        if rc != 0:
            raise Inconclusive("vh netconf failed:\n" + out[-3000:])
        byid = {s["id"]: s for s in scripts}
        trace = os.path.join(wd, "trace.ndjson")
        with open(trace, "w") as fo:
            for e in vlib.read_ndjson(of):
                e["exp"] = byid[e["b"]]["exp"]
                fo.write(json.dumps(e) + "\n")
        verdict = vlib.tlc_trace("NetconfTrace.tla", "NetconfTrace.cfg", trace)
        events = vlib.read_ndjson(trace)
    finally:
        shutil.rmtree(wd, ignore_errors=True)
    import collections
    log("sets=%d failed clauses: %s nt=%s" % (verdict["total"], dict(collections.Counter(b[1] for b in verdict["bad"])), verdict["nt"]))
    nt = verdict["nt"]
    cov = dict(evaluations=len(scripts), distinct_nontrivial=nt["faulty"],
               rule="every behaviour of Netconf.tla (every outcome ok/warning/error/eof at every driver call, both commit-datastore settings, empty and non-empty document) x the 8 combinations of include-ns / operation-with-namespace / use-operation-remove; non-trivial = at least one driver call fails",
               samples=[dict(script={k: s[k] for k in ("commitds", "doc", "plan", "opts")}, calls=e["calls"], ret=e["ret"]) for s, e in list(zip(scripts, events))[40:42]],
               states=design["states"] if design else 1, transitions=design["transitions"] if design else 1, traces_validated_against_impl=len(scripts),
               design_models=[design] if design else [], exhaustive=True)
    rc, seen = 0, set()
    for (p, clause, line) in verdict["bad"]:
        e = events[line - 1]
        key = (clause, e["commitds"], e["doc"], tuple(e["plan"]))
        if key in seen:
            continue
        seen.add(key)
        s = byid[e["b"]]
        path = vlib.save_replay("C18", clause, s, dict(clause=clause, calls=e["calls"], ret=e["ret"]))
        print("VIOLATION property=C18 replay=%s" % path)
        log("  clause %s: commitds=%s doc=%s plan=%s calls=%s ret=%s" % (clause, e["commitds"], e["doc"], e["plan"], [(c["op"], c["outcome"]) for c in e["calls"]], e["ret"]))
        rc = 1
        if len(seen) >= 6:
            break
    vlib.write_evidence("C18", tier, seed, "fault_enumeration", cov, ASSUME, len(verdict["bad"]), time.time() - t0)
    return rc
