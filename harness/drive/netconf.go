package drive

import (
	"context"
	"encoding/json"
	"errors"
	"io"
	"sync"

	"github.com/beevik/etree"
	"github.com/sdcio/data-server/pkg/config"
	schemaClient "github.com/sdcio/data-server/pkg/datastore/clients/schema"
	"github.com/sdcio/data-server/pkg/datastore/target"
	nctypes "github.com/sdcio/data-server/pkg/datastore/target/netconf/types"
	sdcpb "github.com/sdcio/sdc-protos/sdcpb"

	"verifharness/env"
)

// NCScript: one behaviour of Netconf.tla: the outcome the device gives for the k-th driver call
type NCScript struct {
	ID       string   `json:"id"`
	CommitDS string   `json:"commitds"`
	Doc      string   `json:"doc"` // empty | nonempty
	Plan     []string `json:"plan"`
	Opts     [3]bool  `json:"opts"` // include-ns, operation-with-namespace, use-operation-remove
}

type NCCall struct {
	Op      string `json:"op"`
	Target  string `json:"target"`
	Outcome string `json:"outcome"`
}

type NCEvent struct {
	Ev       string   `json:"ev"`
	B        string   `json:"b"`
	CommitDS string   `json:"commitds"`
	Doc      string   `json:"doc"`
	Plan     []string `json:"plan"`
	Opts     [3]bool  `json:"opts"`
	Calls    []NCCall `json:"calls"`
	Ret      string   `json:"ret"`
	ErrMsg   string   `json:"errmsg"`
	Warnings int      `json:"warnings"`
	XMLOpts  [][]bool `json:"xmlopts"` // options ToXML was called with
	Alive    bool     `json:"alive"`
}

type fakeNC struct {
	mu    sync.Mutex
	plan  []string
	calls []NCCall
	alive bool
}

func (f *fakeNC) next(op, tgt string) string {
	f.mu.Lock()
	defer f.mu.Unlock()
	out := "ok"
	if len(f.calls) < len(f.plan) {
		out = f.plan[len(f.calls)]
	}
	f.calls = append(f.calls, NCCall{op, tgt, out})
	if out == "eof" {
		f.alive = false
	}
	return out
}

func outcomeErr(out string) error {
	switch out {
	case "error":
		return errors.New("rpc-error: operation-failed")
	case "eof":
		return errors.New("read error: EOF")
	}
	return nil
}

func (f *fakeNC) reply(out string) (*nctypes.NetconfResponse, error) {
	if err := outcomeErr(out); err != nil {
		return nil, err
	}
	d := etree.NewDocument()
	if out == "warning" {
		d.ReadFromString(`<rpc-reply><rpc-error><error-type>application</error-type><error-severity>warning</error-severity><error-message>careful</error-message></rpc-error><ok/></rpc-reply>`)
	} else {
		d.ReadFromString(`<rpc-reply><ok/></rpc-reply>`)
	}
	return nctypes.NewNetconfResponse(d), nil
}

func (f *fakeNC) Get(filter string) (*nctypes.NetconfResponse, error) {
	return f.reply(f.next("get", "-"))
}
func (f *fakeNC) GetConfig(source string, filter string) (*nctypes.NetconfResponse, error) {
	return f.reply(f.next("get-config", source))
}
func (f *fakeNC) EditConfig(tgt string, cfg string) (*nctypes.NetconfResponse, error) {
	return f.reply(f.next("edit-config", tgt))
}
func (f *fakeNC) Lock(tgt string) (*nctypes.NetconfResponse, error) {
	return f.reply(f.next("lock", tgt))
}
func (f *fakeNC) Unlock(tgt string) (*nctypes.NetconfResponse, error) {
	return f.reply(f.next("unlock", tgt))
}
func (f *fakeNC) Validate(src string) (*nctypes.NetconfResponse, error) {
	return f.reply(f.next("validate", src))
}
func (f *fakeNC) Commit() error  { return outcomeErr(f.next("commit", "-")) }
func (f *fakeNC) Discard() error { return outcomeErr(f.next("discard", "-")) }
func (f *fakeNC) Close() error {
	f.mu.Lock()
	defer f.mu.Unlock()
	f.alive = false
	return nil
}
func (f *fakeNC) IsAlive() bool {
	f.mu.Lock()
	defer f.mu.Unlock()
	return f.alive
}

// stubSource is a change document of a given kind (the content of the rendering is C10's business)
type stubSource struct {
	nonempty bool
	opts     [][]bool
}

func (s *stubSource) ToJson(bool) (any, error)     { return map[string]any{}, nil }
func (s *stubSource) ToJsonIETF(bool) (any, error) { return map[string]any{}, nil }
func (s *stubSource) ToXML(onlyNewOrUpdated bool, honorNamespace bool, operationWithNamespace bool, useOperationRemove bool) (*etree.Document, error) {
	s.opts = append(s.opts, []bool{onlyNewOrUpdated, honorNamespace, operationWithNamespace, useOperationRemove})
	d := etree.NewDocument()
	if s.nonempty {
		e := d.CreateElement("plain")
		e.CreateElement("a").SetText("x")
	}
	return d, nil
}
func (s *stubSource) ToProtoUpdates(context.Context, bool) ([]*sdcpb.Update, error) { return nil, nil }
func (s *stubSource) ToProtoDeletes(context.Context) ([]*sdcpb.Path, error)         { return nil, nil }

type NCRunner struct {
	W   *env.World
	Out io.Writer
	N   int
}

func (r *NCRunner) Run(sc *NCScript) error {
	drv := &fakeNC{plan: sc.Plan, alive: true}
	cfg := &config.SBI{Type: "netconf", NetconfOptions: &config.SBINetconfOptions{
		IncludeNS: sc.Opts[0], OperationWithNamespace: sc.Opts[1], UseOperationRemove: sc.Opts[2], CommitDatastore: sc.CommitDS}}
	scb := schemaClient.NewSchemaClientBound(r.W.SchemaRef().GetSchema(), r.W.Schema)
	t := target.NewNCTargetForVerif("nc", cfg, scb, drv)
	src := &stubSource{nonempty: sc.Doc == "nonempty"}
	rsp, err := t.Set(context.Background(), src)
	ev := &NCEvent{Ev: "ncset", B: sc.ID, CommitDS: sc.CommitDS, Doc: sc.Doc, Plan: sc.Plan, Opts: sc.Opts, Calls: drv.calls, XMLOpts: src.opts, Alive: drv.IsAlive()}
	if ev.Plan == nil {
		ev.Plan = []string{}
	}
	if ev.Calls == nil {
		ev.Calls = []NCCall{}
	}
	if ev.XMLOpts == nil {
		ev.XMLOpts = [][]bool{}
	}
	if err != nil {
		ev.Ret, ev.ErrMsg = "error", err.Error()
	} else {
		ev.Ret = "ok"
		ev.Warnings = len(rsp.GetWarnings())
	}
	b, err := json.Marshal(ev)
	if err != nil {
		return err
	}
	r.N++
	_, err = r.Out.Write(append(b, '\n'))
	return err
}

var _ target.TargetSource = &stubSource{}
