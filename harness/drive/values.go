package drive

// Value engine (C12): one leaf of a YANG built-in type is supplied / reported / withdrawn in every input
// form; after every step the value is observed in every output form (device renderings, stores, GetData).

import (
	"context"
	"encoding/base64"
	"encoding/json"
	"fmt"
	"io"
	"sort"
	"strconv"
	"strings"
	"sync/atomic"
	"time"

	"github.com/beevik/etree"
	"github.com/openconfig/gnmi/proto/gnmi"
	"github.com/sdcio/cache/proto/cachepb"
	"github.com/sdcio/data-server/pkg/cache"
	"github.com/sdcio/data-server/pkg/config"
	"github.com/sdcio/data-server/pkg/datastore/target"
	"github.com/sdcio/data-server/pkg/datastore/target/netconf"
	"github.com/sdcio/data-server/pkg/datastore/types"
	"github.com/sdcio/data-server/pkg/utils"
	sdcpb "github.com/sdcio/sdc-protos/sdcpb"

	schemaClient "github.com/sdcio/data-server/pkg/datastore/clients/schema"

	"verifharness/dev"
	"verifharness/env"
	"verifharness/uni"
)

type ValStep struct {
	Op string `json:"op"` // supply | report | withdraw
	D  string `json:"d"`
	F  string `json:"f"`
}

type ValBehaviour struct {
	ID    string    `json:"id"`
	Leaf  string    `json:"leaf"`
	Steps []ValStep `json:"steps"`
}

type ValEvent struct {
	Ev      string      `json:"ev"`
	B       string      `json:"b"`
	I       int         `json:"i"`
	Leaf    string      `json:"leaf"`
	Op      string      `json:"op"`
	D       string      `json:"d"`
	F       string      `json:"f"`
	Ret     string      `json:"ret"`
	ErrMsg  string      `json:"errmsg"`
	Input   string      `json:"input"`   // what was sent (for explanations)
	Written bool        `json:"written"` // report: the sync path wrote the running store
	Changed bool        `json:"changed"` // the device received an update or a delete for the leaf
	Deleted bool        `json:"deleted"`
	Obs     [][2]string `json:"obs"`     // output form -> datum ("absent" when the form shows nothing for the leaf)
	ObsErr  []string    `json:"obserr"`  // output forms that failed
	Eq      [][3]string `json:"eq"`      // EqualTypedValues(stored a, stored b): [datum a, datum b, result]
	Variant [][2]string `json:"variant"` // where -> TypedValue variant
	Stored  string      `json:"stored"`  // the intended value as stored (text form of the typed value)
}

// cfgWrites counts the writes into the running (config) store: the completion signal of the asynchronous sync path
type cfgWrites struct {
	cache.Client
	n atomic.Int64
}

func (c *cfgWrites) Modify(ctx context.Context, name string, opts *cache.Opts, dels [][]string, upds []*cache.Update) error {
	err := c.Client.Modify(ctx, name, opts, dels, upds)
	if opts.Store == cachepb.Store_CONFIG {
		c.n.Add(1)
	}
	return err
}

type ValRunner struct {
	W   *env.World
	Out io.Writer
	N   int
}

const valOwner = "v"
const valPrio = int32(10)

// ---- gamma for input forms ----

func lexOf(part string) (tag, lex string) {
	i := strings.IndexByte(part, ':')
	tag, lex = part[:i], part[i+1:]
	if tag == "s" || tag == "un" {
		lex = uni.UnescDatum(lex)
	}
	return
}

func llParts(d string) []string {
	body := strings.TrimPrefix(d, "ll:")
	if body == "" {
		return nil
	}
	return strings.Split(body, "|")
}

func fractionDigits(leaf string) int {
	switch {
	case strings.HasSuffix(leaf, "d18"):
		return 18
	case strings.HasSuffix(leaf, "d1"), strings.HasSuffix(leaf, "un2"):
		return 1
	}
	return 2
}

func decDigits(lex string, fd int) (int64, error) {
	neg := strings.HasPrefix(lex, "-")
	lex = strings.TrimPrefix(lex, "-")
	ip, fp := lex, ""
	if i := strings.IndexByte(lex, '.'); i >= 0 {
		ip, fp = lex[:i], lex[i+1:]
	}
	for len(fp) < fd {
		fp += "0"
	}
	if len(fp) > fd {
		return 0, fmt.Errorf("too many fraction digits in %q", lex)
	}
	if neg {
		n, err := strconv.ParseInt("-"+ip+fp, 10, 64)
		return n, err
	}
	return strconv.ParseInt(ip+fp, 10, 64)
}

// nativeScalar: the typed value a typed client would send for the YANG type
func nativeScalar(l *uni.Leaf, part string, minPrecision bool) (*sdcpb.TypedValue, error) {
	tag, lex := lexOf(part)
	switch tag {
	case "u":
		n, err := strconv.ParseUint(lex, 10, 64)
		return &sdcpb.TypedValue{Value: &sdcpb.TypedValue_UintVal{UintVal: n}}, err
	case "i":
		n, err := strconv.ParseInt(lex, 10, 64)
		return &sdcpb.TypedValue{Value: &sdcpb.TypedValue_IntVal{IntVal: n}}, err
	case "b":
		return &sdcpb.TypedValue{Value: &sdcpb.TypedValue_BoolVal{BoolVal: lex == "true"}}, nil
	case "e":
		return &sdcpb.TypedValue{Value: &sdcpb.TypedValue_EmptyVal{}}, nil
	case "d":
		fd := fractionDigits(l.ID)
		if minPrecision {
			fd = 0
			if i := strings.IndexByte(lex, '.'); i >= 0 {
				fd = len(lex) - i - 1
			}
		}
		n, err := decDigits(lex, fd)
		return &sdcpb.TypedValue{Value: &sdcpb.TypedValue_DecimalVal{DecimalVal: &sdcpb.Decimal64{Digits: n, Precision: uint32(fd)}}}, err
	case "id":
		return &sdcpb.TypedValue{Value: &sdcpb.TypedValue_IdentityrefVal{IdentityrefVal: &sdcpb.IdentityRef{Value: lex, Prefix: "vf", Module: "vf"}}}, nil
	case "bin":
		b, err := base64.StdEncoding.DecodeString(lex)
		return &sdcpb.TypedValue{Value: &sdcpb.TypedValue_BytesVal{BytesVal: b}}, err
	case "un":
		if n, err := strconv.ParseInt(lex, 10, 64); err == nil {
			if n >= 0 && strings.HasSuffix(l.ID, "un2") {
				return &sdcpb.TypedValue{Value: &sdcpb.TypedValue_UintVal{UintVal: uint64(n)}}, nil
			}
			return &sdcpb.TypedValue{Value: &sdcpb.TypedValue_IntVal{IntVal: n}}, nil
		}
		if lex == "true" || lex == "false" {
			if strings.HasSuffix(l.ID, "un2") {
				return &sdcpb.TypedValue{Value: &sdcpb.TypedValue_BoolVal{BoolVal: lex == "true"}}, nil
			}
		}
		if strings.HasSuffix(l.ID, "un2") {
			n, err := decDigits(lex, 1)
			return &sdcpb.TypedValue{Value: &sdcpb.TypedValue_DecimalVal{DecimalVal: &sdcpb.Decimal64{Digits: n, Precision: 1}}}, err
		}
	}
	return &sdcpb.TypedValue{Value: &sdcpb.TypedValue_StringVal{StringVal: lex}}, nil
}

// altLex: another valid lexical representation of the same value ("" if there is none worth trying)
func altLex(l *uni.Leaf, part string) string {
	tag, lex := lexOf(part)
	switch tag {
	case "d":
		fd := fractionDigits(l.ID)
		ip, fp := lex, ""
		if i := strings.IndexByte(lex, '.'); i >= 0 {
			ip, fp = lex[:i], lex[i+1:]
		}
		if len(fp) < fd {
			for len(fp) < fd {
				fp += "0"
			}
			return ip + "." + fp
		}
		return ""
	case "i", "u":
		if !strings.HasPrefix(lex, "-") {
			return "+" + lex
		}
	}
	return ""
}

// jsonScalar: JSON text of the value; ietf = RFC 7951 rules, otherwise the plain JSON form the server itself emits
// (numbers for all integers, strings for decimal64); num: decimal64 as a JSON number
func jsonScalar(l *uni.Leaf, part string, ietf, num bool) string {
	tag, lex := lexOf(part)
	q := func(s string) string { b, _ := json.Marshal(s); return string(b) }
	t := strings.TrimPrefix(l.Type, "leaf-list:")
	switch tag {
	case "u", "i":
		if ietf && (t == "int64" || t == "uint64") {
			return q(lex)
		}
		return lex
	case "b":
		return lex
	case "e":
		if ietf {
			return "[null]"
		}
		return "{}"
	case "d":
		if num {
			return lex
		}
		return q(lex)
	case "id":
		if ietf {
			return q("vf:" + lex)
		}
		return q(lex)
	case "un":
		if _, err := strconv.ParseInt(lex, 10, 64); err == nil {
			return lex
		}
		if strings.HasSuffix(l.ID, "un2") && (lex == "true" || lex == "false") {
			return lex
		}
		return q(lex)
	}
	return q(lex)
}

func (r *ValRunner) valuePath(l *uni.Leaf) *sdcpb.Path { return r.W.U.Path(l) }

// supplyUpdate builds the update a client sends for (leaf, datum, form); nil if the form does not apply
func (r *ValRunner) supplyUpdate(l *uni.Leaf, d, f string) (*sdcpb.Update, string, error) {
	isLL := strings.HasPrefix(d, "ll:")
	parts := []string{d}
	if isLL {
		parts = llParts(d)
	}
	scalars := func(mk func(part string) (*sdcpb.TypedValue, error)) (*sdcpb.TypedValue, error) {
		if !isLL {
			return mk(parts[0])
		}
		arr := &sdcpb.ScalarArray{}
		for _, p := range parts {
			tv, err := mk(p)
			if err != nil {
				return nil, err
			}
			arr.Element = append(arr.Element, tv)
		}
		return &sdcpb.TypedValue{Value: &sdcpb.TypedValue_LeaflistVal{LeaflistVal: arr}}, nil
	}
	jsonText := func(ietf, num bool) string {
		if !isLL {
			return jsonScalar(l, parts[0], ietf, num)
		}
		xs := []string{}
		for _, p := range parts {
			xs = append(xs, jsonScalar(l, p, ietf, num))
		}
		return "[" + strings.Join(xs, ",") + "]"
	}
	name := l.Elems[len(l.Elems)-1].Name
	leafPath := r.valuePath(l)
	contPath := &sdcpb.Path{Elem: leafPath.Elem[:len(leafPath.Elem)-1]}
	var tv *sdcpb.TypedValue
	var err error
	path := leafPath
	switch f {
	case "typed":
		tv, err = scalars(func(p string) (*sdcpb.TypedValue, error) { return nativeScalar(l, p, false) })
	case "typedmin":
		tv, err = scalars(func(p string) (*sdcpb.TypedValue, error) { return nativeScalar(l, p, true) })
	case "string":
		tv, err = scalars(func(p string) (*sdcpb.TypedValue, error) {
			_, lex := lexOf(p)
			return &sdcpb.TypedValue{Value: &sdcpb.TypedValue_StringVal{StringVal: lex}}, nil
		})
	case "ascii":
		tv, err = scalars(func(p string) (*sdcpb.TypedValue, error) {
			_, lex := lexOf(p)
			return &sdcpb.TypedValue{Value: &sdcpb.TypedValue_AsciiVal{AsciiVal: lex}}, nil
		})
	case "alt":
		tv, err = scalars(func(p string) (*sdcpb.TypedValue, error) {
			a := altLex(l, p)
			if a == "" {
				_, a = lexOf(p)
			}
			return &sdcpb.TypedValue{Value: &sdcpb.TypedValue_StringVal{StringVal: a}}, nil
		})
	case "json_leaf":
		tv = &sdcpb.TypedValue{Value: &sdcpb.TypedValue_JsonVal{JsonVal: []byte(jsonText(false, false))}}
	case "ietf_leaf":
		tv = &sdcpb.TypedValue{Value: &sdcpb.TypedValue_JsonIetfVal{JsonIetfVal: []byte(jsonText(true, false))}}
	case "json_doc":
		path = contPath
		tv = &sdcpb.TypedValue{Value: &sdcpb.TypedValue_JsonVal{JsonVal: []byte(`{"` + name + `":` + jsonText(false, false) + `}`)}}
	case "json_num":
		path = contPath
		tv = &sdcpb.TypedValue{Value: &sdcpb.TypedValue_JsonVal{JsonVal: []byte(`{"` + name + `":` + jsonText(false, true) + `}`)}}
	case "ietf_doc":
		path = contPath
		tv = &sdcpb.TypedValue{Value: &sdcpb.TypedValue_JsonIetfVal{JsonIetfVal: []byte(`{"` + name + `":` + jsonText(true, false) + `}`)}}
	case "ietf_docq":
		path = contPath
		tv = &sdcpb.TypedValue{Value: &sdcpb.TypedValue_JsonIetfVal{JsonIetfVal: []byte(`{"vf:` + name + `":` + jsonText(true, false) + `}`)}}
	default:
		return nil, "", fmt.Errorf("unknown supply form %q", f)
	}
	if err != nil {
		return nil, "", err
	}
	return &sdcpb.Update{Path: path, Value: tv}, tv.String(), nil
}

// reportNotification builds the notification(s) the SBI hands to the sync loop for a device that reports (leaf, datum) in form f
func (r *ValRunner) reportNotification(ctx context.Context, scb schemaClient.SchemaClientBound, l *uni.Leaf, d, f string) ([]*sdcpb.Notification, string, error) {
	isLL := strings.HasPrefix(d, "ll:")
	parts := []string{d}
	if isLL {
		parts = llParts(d)
	}
	name := l.Elems[len(l.Elems)-1].Name
	leafPath := r.valuePath(l)
	gpath := utils.ToGNMIPath(leafPath)
	gscalars := func(mk func(part string) *gnmi.TypedValue) *gnmi.TypedValue {
		if !isLL {
			return mk(parts[0])
		}
		arr := &gnmi.ScalarArray{}
		for _, p := range parts {
			arr.Element = append(arr.Element, mk(p))
		}
		return &gnmi.TypedValue{Value: &gnmi.TypedValue_LeaflistVal{LeaflistVal: arr}}
	}
	jsonText := func(ietf bool) string {
		if !isLL {
			return jsonScalar(l, parts[0], ietf, false)
		}
		xs := []string{}
		for _, p := range parts {
			xs = append(xs, jsonScalar(l, p, ietf, false))
		}
		return "[" + strings.Join(xs, ",") + "]"
	}
	var gv *gnmi.TypedValue
	switch f {
	case "dev_typed":
		// native sdcpb typed values (what the SBI of another protocol would produce)
		upd, in, err := r.supplyUpdate(l, d, "typed")
		if err != nil {
			return nil, "", err
		}
		return []*sdcpb.Notification{{Timestamp: time.Now().UnixNano(), Update: []*sdcpb.Update{upd}}}, in, nil
	case "dev_string":
		upd, in, err := r.supplyUpdate(l, d, "string")
		if err != nil {
			return nil, "", err
		}
		return []*sdcpb.Notification{{Timestamp: time.Now().UnixNano(), Update: []*sdcpb.Update{upd}}}, in, nil
	case "dev_gnmi_typed":
		gv = gscalars(func(p string) *gnmi.TypedValue {
			tag, lex := lexOf(p)
			switch tag {
			case "u":
				n, _ := strconv.ParseUint(lex, 10, 64)
				return &gnmi.TypedValue{Value: &gnmi.TypedValue_UintVal{UintVal: n}}
			case "i":
				n, _ := strconv.ParseInt(lex, 10, 64)
				return &gnmi.TypedValue{Value: &gnmi.TypedValue_IntVal{IntVal: n}}
			case "b":
				return &gnmi.TypedValue{Value: &gnmi.TypedValue_BoolVal{BoolVal: lex == "true"}}
			case "bin":
				b, _ := base64.StdEncoding.DecodeString(lex)
				return &gnmi.TypedValue{Value: &gnmi.TypedValue_BytesVal{BytesVal: b}}
			case "un":
				if n, err := strconv.ParseInt(lex, 10, 64); err == nil {
					return &gnmi.TypedValue{Value: &gnmi.TypedValue_IntVal{IntVal: n}}
				}
			}
			// decimal64, enumeration, identityref, bits, string, empty ("" is not a value): gNMI carries them as strings
			return &gnmi.TypedValue{Value: &gnmi.TypedValue_StringVal{StringVal: lex}}
		})
	case "dev_gnmi_double":
		// decimal64 (and union members that are decimals) as double, the gNMI encoding of decimal64; bool true for empty
		gv = gscalars(func(p string) *gnmi.TypedValue {
			tag, lex := lexOf(p)
			if tag == "e" {
				return &gnmi.TypedValue{Value: &gnmi.TypedValue_BoolVal{BoolVal: true}}
			}
			if tag == "d" || (tag == "un" && strings.Contains(lex, ".")) {
				if f, err := strconv.ParseFloat(lex, 64); err == nil && strconv.FormatFloat(f, 'f', -1, 64) == lex {
					return &gnmi.TypedValue{Value: &gnmi.TypedValue_DoubleVal{DoubleVal: f}}
				}
				if tag == "d" {
					// not representable as a double: the deprecated but exact decimal_val
					if n, err := decDigits(lex, fractionDigits(l.ID)); err == nil {
						return &gnmi.TypedValue{Value: &gnmi.TypedValue_DecimalVal{DecimalVal: &gnmi.Decimal64{Digits: n, Precision: uint32(fractionDigits(l.ID))}}}
					}
				}
			}
			return &gnmi.TypedValue{Value: &gnmi.TypedValue_StringVal{StringVal: lex}}
		})
	case "dev_gnmi_ascii":
		gv = gscalars(func(p string) *gnmi.TypedValue {
			_, lex := lexOf(p)
			return &gnmi.TypedValue{Value: &gnmi.TypedValue_AsciiVal{AsciiVal: lex}}
		})
	case "dev_gnmi_ietf":
		gv = &gnmi.TypedValue{Value: &gnmi.TypedValue_JsonIetfVal{JsonIetfVal: []byte(jsonText(true))}}
	case "dev_gnmi_json":
		gv = &gnmi.TypedValue{Value: &gnmi.TypedValue_JsonVal{JsonVal: []byte(jsonText(false))}}
	case "dev_gnmi_ietf_doc":
		gpath = utils.ToGNMIPath(&sdcpb.Path{Elem: leafPath.Elem[:len(leafPath.Elem)-1]})
		gv = &gnmi.TypedValue{Value: &gnmi.TypedValue_JsonIetfVal{JsonIetfVal: []byte(`{"vf:` + name + `":` + jsonText(true) + `}`)}}
	case "dev_xml":
		doc := etree.NewDocument()
		cur := doc.CreateElement("data")
		for i, e := range l.Elems[:len(l.Elems)-1] {
			cur = cur.CreateElement(e.Name)
			if i == 0 {
				cur.CreateAttr("xmlns", "urn:verif/vf")
			}
		}
		for _, p := range parts {
			tag, lex := lexOf(p)
			el := cur.CreateElement(name)
			if tag == "id" {
				el.CreateAttr("xmlns:vf", "urn:verif/vf")
				lex = "vf:" + lex
			}
			if tag != "e" {
				el.SetText(lex)
			}
		}
		ns, err := netconf.NewXML2sdcpbConfigAdapter(scb).Transform(ctx, doc)
		s, _ := doc.WriteToString()
		return ns, s, err
	default:
		return nil, "", fmt.Errorf("unknown report form %q", f)
	}
	gn := &gnmi.Notification{Timestamp: time.Now().UnixNano(), Update: []*gnmi.Update{{Path: gpath, Val: gv}}}
	return []*sdcpb.Notification{utils.ToSchemaNotification(gn)}, gv.String(), nil
}

// ---- alpha for output forms ----

func canonLL(d string) string {
	if !strings.HasPrefix(d, "ll:") {
		return d
	}
	p := llParts(d)
	sort.Strings(p)
	return "ll:" + strings.Join(p, "|")
}

func gnmiLex(v *gnmi.TypedValue) (string, bool) {
	switch x := v.GetValue().(type) {
	case *gnmi.TypedValue_StringVal:
		return x.StringVal, true
	case *gnmi.TypedValue_AsciiVal:
		return x.AsciiVal, true
	case *gnmi.TypedValue_IntVal:
		return strconv.FormatInt(x.IntVal, 10), true
	case *gnmi.TypedValue_UintVal:
		return strconv.FormatUint(x.UintVal, 10), true
	case *gnmi.TypedValue_BoolVal:
		return strconv.FormatBool(x.BoolVal), true
	case *gnmi.TypedValue_BytesVal:
		return base64.StdEncoding.EncodeToString(x.BytesVal), true
	case *gnmi.TypedValue_DoubleVal:
		return strconv.FormatFloat(x.DoubleVal, 'f', -1, 64), true
	case *gnmi.TypedValue_FloatVal:
		return strconv.FormatFloat(float64(x.FloatVal), 'f', -1, 32), true
	case *gnmi.TypedValue_DecimalVal:
		return strconv.FormatInt(x.DecimalVal.GetDigits(), 10) + "e-" + strconv.FormatUint(uint64(x.DecimalVal.GetPrecision()), 10), true
	}
	return "", false
}

// gnmiDatum: the datum a gNMI typed value denotes; a double denotes the expected decimal when it is the double nearest to it
// (gNMI carries decimal64 as double, which is exact only up to 2^53)
func gnmiDatum(l *uni.Leaf, v *gnmi.TypedValue, want string) string {
	if v == nil || v.GetValue() == nil {
		return "nil"
	}
	if dv, ok := v.GetValue().(*gnmi.TypedValue_DoubleVal); ok && !strings.HasPrefix(want, "ll:") {
		if _, lex := lexOf(want); true {
			if f, err := strconv.ParseFloat(lex, 64); err == nil && f == dv.DoubleVal {
				return want
			}
		}
	}
	t := strings.TrimPrefix(l.Type, "leaf-list:")
	if ll, ok := v.GetValue().(*gnmi.TypedValue_LeaflistVal); ok {
		parts := []string{}
		for _, e := range ll.LeaflistVal.GetElement() {
			w := ""
			if wp := llParts(canonLL(want)); len(wp) == len(ll.LeaflistVal.GetElement()) {
				// elements in the order sent; the expected datum is only used for the double tolerance
				for _, cand := range wp {
					if gnmiDatum(&uni.Leaf{ID: l.ID, Type: t}, e, cand) == cand {
						w = cand
					}
				}
			}
			parts = append(parts, gnmiDatum(&uni.Leaf{ID: l.ID, Type: t}, e, w))
		}
		return "ll:" + strings.Join(parts, "|")
	}
	lex, ok := gnmiLex(v)
	if !ok {
		return "other:" + v.String()
	}
	if t == "empty" {
		return "e:"
	}
	return uni.LexDatum(t, lex)
}

func (r *ValRunner) emit(e *ValEvent) error {
	if e.Obs == nil {
		e.Obs = [][2]string{}
	}
	if e.ObsErr == nil {
		e.ObsErr = []string{}
	}
	if e.Eq == nil {
		e.Eq = [][3]string{}
	}
	if e.Variant == nil {
		e.Variant = [][2]string{}
	}
	b, err := json.Marshal(e)
	if err != nil {
		return err
	}
	if _, err = r.Out.Write(append(b, '\n')); err != nil {
		return err
	}
	return r.flush()
}

func (r *ValRunner) flush() error {
	if f, ok := r.Out.(interface{ Flush() error }); ok {
		return f.Flush()
	}
	return nil
}

// begin marks the start of a step: a crash of the process (panic in a goroutine of the server) is attributed to it
func (r *ValRunner) begin(b string, i int) error {
	if _, err := fmt.Fprintf(r.Out, "{\"ev\":\"begin\",\"b\":%q,\"i\":%d}\n", b, i); err != nil {
		return err
	}
	return r.flush()
}

func findPair(ps []Pair, leaf string) string {
	for _, p := range ps {
		if p[0] == leaf {
			return canonLL(p[1])
		}
	}
	return "absent"
}

// Run executes one behaviour (a chain of steps on one leaf) on a fresh datastore.
func (r *ValRunner) Run(b *ValBehaviour) error {
	u := r.W.U
	l := u.Leaf(b.Leaf)
	if l == nil {
		return fmt.Errorf("unknown leaf %s", b.Leaf)
	}
	ir := &Runner{W: r.W, Out: io.Discard}
	device := dev.New()
	device.OnSet = func(ctx context.Context, src target.TargetSource, call *dev.SetCall) {
		call.Extra = ir.render(ctx, src)
	}
	syncIn := make(chan *target.SyncUpdate)
	device.SyncFn = func(ctx context.Context, _ *config.Sync, ch chan *target.SyncUpdate) {
		for {
			select {
			case su := <-syncIn:
				select {
				case ch <- su:
				case <-ctx.Done():
					return
				}
			case <-ctx.Done():
				return
			}
		}
	}
	cw := &cfgWrites{Client: r.W.Cache}
	ds, err := r.W.NewDS(env.DSOpts{Device: device, Cache: cw, Sync: &config.Sync{Validate: false, Buffer: 1, WriteWorkers: 1}})
	if err != nil {
		return err
	}
	defer ds.Stop(true)
	ir.ds = ds
	ctx := context.Background()
	scb := schemaClient.NewSchemaClientBound(r.W.SchemaRef().GetSchema(), r.W.Schema)
	stored := map[string][]*sdcpb.TypedValue{} // datum -> the distinct stored typed values that were read back for it
	for i, st := range b.Steps {
		if err := r.begin(b.ID, i); err != nil {
			return err
		}
		ev := &ValEvent{Ev: "val", B: b.ID, I: i, Leaf: b.Leaf, Op: st.Op, D: st.D, F: st.F}
		obs := func(name, datum string) { ev.Obs = append(ev.Obs, [2]string{name, canonLL(datum)}) }
		oerr := func(name string, err error) { ev.ObsErr = append(ev.ObsErr, name+": "+err.Error()) }
		devFrom := ds.Dev.NumCalls()
		var cur *sdcpb.TypedValue
		cctx, cancel := context.WithTimeout(ctx, 5*time.Second)
		switch st.Op {
		case "supply", "withdraw":
			req := &sdcpb.TransactionIntent{Intent: valOwner, Priority: valPrio}
			if st.Op == "withdraw" {
				req.Delete = true
			} else {
				upd, in, err := r.supplyUpdate(l, st.D, st.F)
				if err != nil {
					cancel()
					return err
				}
				ev.Input = in
				req.Update = []*sdcpb.Update{upd}
			}
			ti, err := ds.D.SdcpbTransactionIntentToInternalTI(cctx, req)
			if err != nil {
				ev.Ret, ev.ErrMsg = "error", "conversion: "+err.Error()
				break
			}
			id := fmt.Sprintf("%s-%d", b.ID, i)
			resp, err := ds.D.TransactionSet(cctx, id, []*types.TransactionIntent{ti}, nil, 30*time.Second, false)
			if err != nil {
				ev.Ret, ev.ErrMsg = "error", err.Error()
				break
			}
			ev.Ret = "ok"
			if hasErrors(resp) {
				ev.Ret = "invalid"
				for n, ri := range resp.GetIntents() {
					ev.ErrMsg += n + ": " + strings.Join(ri.GetErrors(), "; ")
				}
				break
			}
			if err := ds.D.TransactionConfirm(cctx, id); err != nil {
				ev.Ret, ev.ErrMsg = "error", "confirm: "+err.Error()
				break
			}
			rc := ir.absChange(resp.GetUpdate(), resp.GetDelete())
			if d := findPair(rc.Upd, b.Leaf); d != "absent" {
				obs("resp", d)
			}
		case "report":
			before := cw.n.Load()
			ns, in, err := r.reportNotification(cctx, scb, l, st.D, st.F)
			ev.Input = in
			if err != nil {
				ev.Ret, ev.ErrMsg = "error", "transform: "+err.Error()
				break
			}
			ev.Ret = "ok"
			for _, n := range ns {
				select {
				case syncIn <- &target.SyncUpdate{Update: n}:
				case <-cctx.Done():
					ev.Ret, ev.ErrMsg = "error", "sync loop does not take the notification"
				}
			}
			// the write is asynchronous: wait for the write into the running store (or give up)
			deadline := time.Now().Add(500 * time.Millisecond)
			for time.Now().Before(deadline) {
				if cw.n.Load() > before {
					ev.Written = true
					break
				}
				time.Sleep(2 * time.Millisecond)
			}
		default:
			cancel()
			return fmt.Errorf("unknown op %q", st.Op)
		}
		cancel()
		// --- what the device received ---
		for _, call := range ds.Dev.CallsFrom(devFrom) {
			c := ir.absChange(call.Upd, call.Del)
			if d := findPair(c.Upd, b.Leaf); d != "absent" {
				ev.Changed = true
				obs("dev.proto", d)
				for _, up := range call.Upd {
					if u.AlphaPath(up.GetPath()) == b.Leaf {
						ev.Variant = append(ev.Variant, [2]string{"dev.proto", uni.Variant(up.GetValue())})
						obs("dev.gnmi", gnmiDatum(l, utils.ToGNMITypedValue(up.GetValue()), st.D))
					}
				}
			}
			if len(call.Del) > 0 {
				ev.Changed, ev.Deleted = true, true
			}
			if enc, ok := call.Extra.(*Renderings); ok && enc != nil {
				for _, e := range enc.Errs {
					ev.ObsErr = append(ev.ObsErr, "render: "+e)
				}
				if ev.Changed && !ev.Deleted {
					obs("dev.json", findPair(enc.Json, b.Leaf))
					obs("dev.ietf", findPair(enc.Ietf, b.Leaf))
					for k, x := range enc.XML {
						if x.Err != "" {
							ev.ObsErr = append(ev.ObsErr, fmt.Sprintf("xml%d: %s", k, x.Err))
							continue
						}
						obs(fmt.Sprintf("dev.xml%d", k), findPair(pairsOf(x.Upd), b.Leaf))
					}
				}
				if st.Op == "supply" {
					obs("all.proto", findPair(enc.ProtoAll, b.Leaf))
					obs("all.json", findPair(enc.JsonAll, b.Leaf))
					obs("all.ietf", findPair(enc.IetfAll, b.Leaf))
					obs("all.xml", findPair(enc.XMLAll, b.Leaf))
				}
			}
		}
		// --- stores ---
		if st.Op != "report" {
			ents, err := ds.ReadIntended(ctx)
			if err != nil {
				oerr("store.intended", err)
			} else {
				d := "absent"
				for _, e := range ents {
					if e.Leaf == b.Leaf && e.Owner == valOwner {
						d = e.Datum
					}
				}
				obs("store.intended", d)
			}
			upds := r.W.Cache.Read(ctx, ds.Name, &cache.Opts{Store: cachepb.Store_INTENDED, Owner: valOwner, Priority: valPrio}, [][]string{u.CachePath(l)}, 0)
			for _, cu := range upds {
				if tv, err := cu.Value(); err == nil {
					ev.Variant = append(ev.Variant, [2]string{"store.intended", uni.Variant(tv)})
					ev.Stored = tv.String()
					if st.Op == "supply" && ev.Ret == "ok" {
						k, dup := canonLL(st.D), false
						for _, o := range stored[k] {
							dup = dup || o.String() == tv.String()
						}
						if !dup {
							stored[k] = append(stored[k], tv)
						}
						cur = tv
					}
					if l.Kind != "leaflist" {
						obs("str", canonLL(u.Datum(l, &sdcpb.TypedValue{Value: &sdcpb.TypedValue_StringVal{StringVal: utils.TypedValueToString(tv)}})))
					}
				}
			}
		}
		d := "absent"
		for _, lv := range ds.ReadStore(ctx, cachepb.Store_CONFIG) {
			if lv.Leaf == b.Leaf {
				d = lv.Datum
			}
		}
		obs("store.running", d)
		// --- GetData ---
		for _, which := range []string{"MAIN", "INTENDED"} {
			if which == "INTENDED" && st.Op == "report" {
				continue
			}
			for _, enc := range []sdcpb.Encoding{sdcpb.Encoding_STRING, sdcpb.Encoding_PROTO, sdcpb.Encoding_JSON, sdcpb.Encoding_JSON_IETF} {
				name := "get." + which + "." + enc.String()
				req := &sdcpb.GetDataRequest{Name: ds.Name, Datastore: &sdcpb.DataStore{Type: sdcpb.Type_MAIN}, DataType: sdcpb.DataType_CONFIG, Encoding: enc, Path: []*sdcpb.Path{u.Path(l)}}
				if which == "INTENDED" {
					req.Datastore = &sdcpb.DataStore{Type: sdcpb.Type_INTENDED, Owner: valOwner, Priority: valPrio}
				}
				d, err := r.getOne(ctx, ds, req, b.Leaf)
				if err != nil {
					oerr(name, err)
					continue
				}
				obs(name, d)
			}
		}
		// --- equality of stored values ---
		if cur != nil {
			keys := make([]string, 0, len(stored))
			for k := range stored {
				keys = append(keys, k)
			}
			sort.Strings(keys)
			for _, k := range keys {
				for _, o := range stored[k] {
					ev.Eq = append(ev.Eq, [3]string{canonLL(st.D), k, strconv.FormatBool(utils.EqualTypedValues(cur, o) && utils.EqualTypedValues(o, cur))})
				}
			}
		}
		sort.Slice(ev.Obs, func(a, c int) bool { return ev.Obs[a][0] < ev.Obs[c][0] })
		if err := r.emit(ev); err != nil {
			return err
		}
	}
	r.N++
	return nil
}

func (r *ValRunner) getOne(ctx context.Context, ds *env.DS, req *sdcpb.GetDataRequest, leaf string) (string, error) {
	u := r.W.U
	nCh := make(chan *sdcpb.GetDataResponse)
	errCh := make(chan error, 1)
	cctx, cancel := context.WithTimeout(ctx, 5*time.Second)
	defer cancel()
	go func() { errCh <- ds.D.Get(cctx, req, nCh) }()
	d := "absent"
	for rsp := range nCh {
		for _, n := range rsp.GetNotification() {
			for _, up := range n.GetUpdate() {
				if jv := jsonOf(up.GetValue()); jv != nil && (req.Encoding == sdcpb.Encoding_JSON || req.Encoding == sdcpb.Encoding_JSON_IETF) {
					kvs, err := u.DecodeJSON(jv)
					if err != nil {
						d = "undecodable-json"
						continue
					}
					for _, kv := range kvs {
						if kv[0] == leaf {
							d = kv[1]
						}
					}
					continue
				}
				if u.AlphaPath(up.GetPath()) == leaf {
					d = u.Datum(u.Leaf(leaf), up.GetValue())
				}
			}
		}
	}
	if err := <-errCh; err != nil {
		return "", err
	}
	return d, nil
}
