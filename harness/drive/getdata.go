package drive

import (
	"context"
	"encoding/json"
	"fmt"
	"io"
	"sort"
	"time"

	"github.com/sdcio/cache/proto/cachepb"
	"github.com/sdcio/data-server/pkg/cache"
	sdcpb "github.com/sdcio/sdc-protos/sdcpb"
	"google.golang.org/protobuf/proto"

	"verifharness/env"
	"verifharness/uni"
)

// GetReq is one request of the GetData specification
type GetReq struct {
	Type  string   `json:"type"`  // MAIN | INTENDED
	DT    string   `json:"dt"`    // ALL | CONFIG | STATE
	Enc   string   `json:"enc"`   // STRING | PROTO | JSON | JSON_IETF | BOGUS
	Paths []string `json:"paths"` // node ids; "?unknown" is a path that is not in the schema
	Owner string   `json:"owner"`
	Prio  int32    `json:"prio"`
}

// GetState: store contents plus the requests to issue on them
type GetState struct {
	ID       string   `json:"id"`
	Gamma    string   `json:"gamma,omitempty"`
	Config   []Pair   `json:"config"`
	State    []Pair   `json:"state"`
	Intended [][]any  `json:"intended"`
	Reqs     []GetReq `json:"reqs"`
}

type GetEvent struct {
	Ev       string  `json:"ev"`
	B        string  `json:"b"`
	Config   []Pair  `json:"config"`
	State    []Pair  `json:"state"`
	Intended [][]any `json:"intended"`
	Req      GetReq  `json:"req"`
	Ret      string  `json:"ret"` // ok | error
	ErrMsg   string  `json:"errmsg"`
	Leaves   []Pair  `json:"leaves"`
	NMsgs    int     `json:"nmsgs"`
}

type GetRunner struct {
	W   *env.World
	Out io.Writer
	N   int
}

func (r *GetRunner) writeStore(ctx context.Context, name string, st cachepb.Store, kvs []Pair) error {
	u := r.W.U
	var upds []*cache.Update
	for _, kv := range kvs {
		l := u.Leaf(kv[0])
		if l == nil {
			return fmt.Errorf("unknown leaf %s", kv[0])
		}
		tv, err := u.TypedValue(l, kv[1])
		if err != nil {
			return err
		}
		b, _ := proto.Marshal(tv)
		upds = append(upds, cache.NewUpdate(u.CachePath(l), b, 0, "", 0))
	}
	if len(upds) == 0 {
		return nil
	}
	return r.W.Cache.Modify(ctx, name, &cache.Opts{Store: st}, nil, upds)
}

func (r *GetRunner) Run(st *GetState) error {
	if st.Gamma != "" && st.Gamma != r.W.U.Gamma {
		if err := r.W.U.SetGamma(st.Gamma); err != nil {
			return err
		}
	}
	ds, err := r.W.NewDS(env.DSOpts{})
	if err != nil {
		return err
	}
	defer ds.Stop(true)
	ctx := context.Background()
	u := r.W.U
	if err := r.writeStore(ctx, ds.Name, cachepb.Store_CONFIG, st.Config); err != nil {
		return err
	}
	if err := r.writeStore(ctx, ds.Name, cachepb.Store_STATE, st.State); err != nil {
		return err
	}
	type op struct {
		o string
		p int32
	}
	groups := map[op][]*cache.Update{}
	for _, e := range st.Intended {
		o, p := e[0].(string), int32(e[1].(float64))
		l := u.Leaf(e[2].(string))
		tv, err := u.TypedValue(l, e[3].(string))
		if err != nil {
			return err
		}
		b, _ := proto.Marshal(tv)
		groups[op{o, p}] = append(groups[op{o, p}], cache.NewUpdate(u.CachePath(l), b, p, o, 0))
	}
	for k, upds := range groups {
		if err := r.W.Cache.Modify(ctx, ds.Name, &cache.Opts{Store: cachepb.Store_INTENDED, Owner: k.o, Priority: k.p}, nil, upds); err != nil {
			return err
		}
	}
	for _, rq := range st.Reqs {
		ev := &GetEvent{Ev: "get", B: st.ID, Config: nzp(st.Config), State: nzp(st.State), Intended: st.Intended, Req: rq, Leaves: []Pair{}}
		if ev.Intended == nil {
			ev.Intended = [][]any{}
		}
		if ev.Req.Paths == nil {
			ev.Req.Paths = []string{}
		}
		req := &sdcpb.GetDataRequest{Name: ds.Name, Datastore: &sdcpb.DataStore{}}
		switch rq.Type {
		case "INTENDED":
			req.Datastore.Type = sdcpb.Type_INTENDED
			req.Datastore.Owner = rq.Owner
			req.Datastore.Priority = rq.Prio
		default:
			req.Datastore.Type = sdcpb.Type_MAIN
		}
		switch rq.DT {
		case "CONFIG":
			req.DataType = sdcpb.DataType_CONFIG
		case "STATE":
			req.DataType = sdcpb.DataType_STATE
		default:
			req.DataType = sdcpb.DataType_ALL
		}
		switch rq.Enc {
		case "STRING":
			req.Encoding = sdcpb.Encoding_STRING
		case "PROTO":
			req.Encoding = sdcpb.Encoding_PROTO
		case "JSON":
			req.Encoding = sdcpb.Encoding_JSON
		case "JSON_IETF":
			req.Encoding = sdcpb.Encoding_JSON_IETF
		default:
			req.Encoding = sdcpb.Encoding(99)
		}
		for _, pid := range rq.Paths {
			if pid == "?unknown" {
				req.Path = append(req.Path, &sdcpb.Path{Elem: []*sdcpb.PathElem{{Name: "plain"}, {Name: "nosuchleaf"}}})
				continue
			}
			n := u.Node(pid)
			if n == nil {
				return fmt.Errorf("unknown node %s", pid)
			}
			req.Path = append(req.Path, u.NodePath(n))
		}
		nCh := make(chan *sdcpb.GetDataResponse)
		errCh := make(chan error, 1)
		cctx, cancel := context.WithTimeout(ctx, 5*time.Second)
		go func() { errCh <- ds.D.Get(cctx, req, nCh) }()
		seen := map[Pair]bool{}
		dup := false
		for rsp := range nCh {
			ev.NMsgs++
			for _, n := range rsp.GetNotification() {
				for _, up := range n.GetUpdate() {
					if jv := jsonOf(up.GetValue()); jv != nil && (rq.Enc == "JSON" || rq.Enc == "JSON_IETF") {
						kvs, err := u.DecodeJSON(jv)
						if err != nil {
							ev.Leaves = append(ev.Leaves, Pair{"?undecodable-json", err.Error()})
							continue
						}
						for _, kv := range kvs {
							ev.Leaves = append(ev.Leaves, Pair{kv[0], kv[1]})
						}
						continue
					}
					id := u.AlphaPath(up.GetPath())
					pr := Pair{id, u.Datum(u.Leaf(id), up.GetValue())}
					if seen[pr] {
						dup = true
					}
					seen[pr] = true
					ev.Leaves = append(ev.Leaves, pr)
				}
			}
		}
		err := <-errCh
		cancel()
		if err != nil {
			ev.Ret, ev.ErrMsg = "error", err.Error()
		} else {
			ev.Ret = "ok"
		}
		if dup {
			ev.ErrMsg += " [duplicate updates]"
		}
		sort.Slice(ev.Leaves, func(i, j int) bool {
			return ev.Leaves[i][0] < ev.Leaves[j][0] || (ev.Leaves[i][0] == ev.Leaves[j][0] && ev.Leaves[i][1] < ev.Leaves[j][1])
		})
		b, err := json.Marshal(ev)
		if err != nil {
			return err
		}
		if _, err := r.Out.Write(append(b, '\n')); err != nil {
			return err
		}
		r.N++
	}
	return nil
}

func nzp(p []Pair) []Pair {
	if p == nil {
		return []Pair{}
	}
	return p
}

func jsonOf(tv *sdcpb.TypedValue) []byte {
	switch v := tv.GetValue().(type) {
	case *sdcpb.TypedValue_JsonVal:
		return v.JsonVal
	case *sdcpb.TypedValue_JsonIetfVal:
		return v.JsonIetfVal
	}
	return nil
}

var _ = uni.CanonPath
