package drive

import (
	"context"
	"encoding/json"
	"fmt"
	"io"
	"sort"
	"sync"

	"github.com/sdcio/cache/proto/cachepb"
	"github.com/sdcio/data-server/pkg/cache"
	sdcpb "github.com/sdcio/sdc-protos/sdcpb"
	"google.golang.org/grpc/metadata"
	"google.golang.org/protobuf/proto"

	"verifharness/env"
)

// DevState is one state of the Deviation specification: contents of the intended and the running store.
type DevState struct {
	ID       string  `json:"id"`
	Gamma    string  `json:"gamma,omitempty"`
	Intended [][]any `json:"intended"` // [o, p, l, d]
	Running  []Pair  `json:"running"`
}

type DevMsg struct {
	Event  string `json:"event"`
	Reason string `json:"reason"`
	Intent string `json:"intent"`
	L      string `json:"l"`
	Exp    string `json:"exp"`
	Cur    string `json:"cur"`
}

type DevEvent struct {
	Ev       string   `json:"ev"`
	B        string   `json:"b"`
	Intended [][]any  `json:"intended"`
	Running  []Pair   `json:"running"`
	Msgs     []DevMsg `json:"msgs"`
	Msgs2    int      `json:"msgs2"` // number of messages the second watcher received
}

// fakeStream implements sdcpb.DataServer_WatchDeviationsServer
type fakeStream struct {
	mu   sync.Mutex
	ctx  context.Context
	msgs []*sdcpb.WatchDeviationResponse
}

func (f *fakeStream) Send(m *sdcpb.WatchDeviationResponse) error {
	f.mu.Lock()
	defer f.mu.Unlock()
	f.msgs = append(f.msgs, proto.Clone(m).(*sdcpb.WatchDeviationResponse))
	return nil
}
func (f *fakeStream) SetHeader(metadata.MD) error  { return nil }
func (f *fakeStream) SendHeader(metadata.MD) error { return nil }
func (f *fakeStream) SetTrailer(metadata.MD)       {}
func (f *fakeStream) Context() context.Context     { return f.ctx }
func (f *fakeStream) SendMsg(m any) error          { return nil }
func (f *fakeStream) RecvMsg(m any) error          { return nil }

type DevRunner struct {
	W   *env.World
	Out io.Writer
	N   int
}

func (r *DevRunner) Run(st *DevState) error {
	if st.Gamma != "" && st.Gamma != r.W.U.Gamma {
		if err := r.W.U.SetGamma(st.Gamma); err != nil {
			return err
		}
	}
	ds, err := r.W.NewDS(env.DSOpts{})
	if err != nil {
		return err
	}
	defer ds.Stop(true)
	ctx := context.Background()
	u := r.W.U
	// intended store: one Modify per (owner, priority)
	type op struct {
		o string
		p int32
	}
	groups := map[op][]*cache.Update{}
	for _, e := range st.Intended {
		o := e[0].(string)
		p := int32(e[1].(float64))
		l := u.Leaf(e[2].(string))
		if l == nil {
			return fmt.Errorf("unknown leaf %v", e[2])
		}
		tv, err := u.TypedValue(l, e[3].(string))
		if err != nil {
			return err
		}
		tv = yangTyped(l.Type, tv)
		b, _ := proto.Marshal(tv)
		groups[op{o, p}] = append(groups[op{o, p}], cache.NewUpdate(u.CachePath(l), b, p, o, 0))
	}
	for k, upds := range groups {
		if err := r.W.Cache.Modify(ctx, ds.Name, &cache.Opts{Store: cachepb.Store_INTENDED, Owner: k.o, Priority: k.p}, nil, upds); err != nil {
			return err
		}
	}
	var run []*cache.Update
	for _, kv := range st.Running {
		l := u.Leaf(kv[0])
		tv, err := u.TypedValue(l, kv[1])
		if err != nil {
			return err
		}
		tv = yangTyped(l.Type, tv)
		b, _ := proto.Marshal(tv)
		run = append(run, cache.NewUpdate(u.CachePath(l), b, 0, "", 0))
	}
	if len(run) > 0 {
		if err := r.W.Cache.Modify(ctx, ds.Name, &cache.Opts{Store: cachepb.Store_CONFIG}, nil, run); err != nil {
			return err
		}
	}
	s1, s2 := &fakeStream{ctx: ctx}, &fakeStream{ctx: ctx}
	ds.D.VerifDeviationCycle(ctx, map[string]sdcpb.DataServer_WatchDeviationsServer{"w1": s1, "w2": s2})
	ev := &DevEvent{Ev: "cycle", B: st.ID, Intended: st.Intended, Running: st.Running, Msgs: []DevMsg{}, Msgs2: len(s2.msgs)}
	if ev.Intended == nil {
		ev.Intended = [][]any{}
	}
	if ev.Running == nil {
		ev.Running = []Pair{}
	}
	for _, m := range s1.msgs {
		dm := DevMsg{Event: m.GetEvent().String(), Reason: "", Intent: m.GetIntent(), L: "-", Exp: "nil", Cur: "nil"}
		if m.GetEvent() == sdcpb.DeviationEvent_UPDATE {
			dm.Reason = m.GetReason().String()
			id := u.AlphaPath(m.GetPath())
			dm.L = id
			if m.GetExpectedValue() != nil {
				dm.Exp = u.Datum(u.Leaf(id), m.GetExpectedValue())
			}
			if m.GetCurrentValue() != nil {
				dm.Cur = u.Datum(u.Leaf(id), m.GetCurrentValue())
			}
		}
		ev.Msgs = append(ev.Msgs, dm)
	}
	// keep START first / END last as sent; sort the UPDATE messages in between for readability only
	if n := len(ev.Msgs); n > 2 {
		mid := ev.Msgs[1 : n-1]
		sort.SliceStable(mid, func(i, j int) bool {
			a, b := mid[i], mid[j]
			if a.L != b.L {
				return a.L < b.L
			}
			if a.Reason != b.Reason {
				return a.Reason < b.Reason
			}
			return a.Intent < b.Intent
		})
	}
	b, err := json.Marshal(ev)
	if err != nil {
		return err
	}
	r.N++
	_, err = r.Out.Write(append(b, '\n'))
	return err
}

// yangTyped converts the harness' string-form typed values into the YANG typed form that the stores hold
// (what TransactionSet and the sync path write): enumerations, identityrefs etc. stay strings here.
func yangTyped(typ string, tv *sdcpb.TypedValue) *sdcpb.TypedValue {
	return tv
}
