package drive

import (
	"bufio"
	"context"
	"encoding/json"
	"fmt"
	"strings"
	"sync"
	"time"

	"github.com/sdcio/data-server/pkg/datastore/types"
	"github.com/sdcio/data-server/pkg/verifhook"
	sdcpb "github.com/sdcio/sdc-protos/sdcpb"

	"verifharness/dev"
	"verifharness/env"
)

// Replay of DsLife behaviours (spec/DsLife.tla) on real Datastore objects: Create = datastore.New on the shared
// cache client and device, Delete = what Server.DeleteDataStore does (Stop, DeleteCache), Set / Confirm / Cancel =
// the transaction calls, TimerFire(i) = the rollback timer goroutine of incarnation i is let go (it is parked at
// the "timer.fired" yield point from the moment the timer fired) and runs to "timer.done".

type DsLifeStep struct {
	Act string `json:"act"`
	V   string `json:"v"`
	I   int    `json:"i"`
}

type DsLifeBeh struct {
	ID     string       `json:"id"`
	Refuse bool         `json:"refuse"` // closed target connections refuse Set
	Steps  []DsLifeStep `json:"steps"`
}

type DsLifeEvent struct {
	B      string `json:"b"`
	Act    string `json:"act"`
	V      string `json:"v"`
	I      int    `json:"i"`
	Refuse bool   `json:"refuse"`
	Cache  string `json:"cache"`  // "none": no cache instance of that name; "-": no intent; else the value
	Device string `json:"device"` // "-": leaf absent
	Ret    string `json:"ret"`
	Calls  int    `json:"calls"` // device Set calls so far
}

type DsLifeRunner struct {
	W   *env.World
	Out *bufio.Writer
	n   int
}

type lifeGate struct {
	mu      sync.Mutex
	fired   map[string]chan struct{} // transaction id -> closed when its timer goroutine arrived at timer.fired
	release map[string]chan struct{} // transaction id -> closed to let it go
	done    map[string]chan struct{} // transaction id -> closed at timer.done
}

func (g *lifeGate) chans(id string) (chan struct{}, chan struct{}, chan struct{}) {
	g.mu.Lock()
	defer g.mu.Unlock()
	if g.fired[id] == nil {
		g.fired[id] = make(chan struct{})
		g.release[id] = make(chan struct{})
		g.done[id] = make(chan struct{})
	}
	return g.fired[id], g.release[id], g.done[id]
}

func (g *lifeGate) yield(point, id string) {
	switch point {
	case "timer.fired":
		f, r, _ := g.chans(id)
		close(f)
		<-r
	case "timer.done":
		_, _, d := g.chans(id)
		close(d)
	}
}

func (r *DsLifeRunner) Run(b *DsLifeBeh) error {
	ctx := context.Background()
	r.n++
	name := fmt.Sprintf("life%d", r.n)
	device := dev.New()
	g := &lifeGate{fired: map[string]chan struct{}{}, release: map[string]chan struct{}{}, done: map[string]chan struct{}{}}
	verifhook.SetYieldFn(g.yield)
	defer verifhook.SetYieldFn(nil)
	inc := map[int]*env.DS{}
	openID := map[int]string{}
	var live *env.DS
	liveInc := 0
	nset := 0
	path := &sdcpb.Path{Elem: []*sdcpb.PathElem{{Name: "plain"}, {Name: "a"}}}
	observe := func(st DsLifeStep, ret string) error {
		ev := DsLifeEvent{B: b.ID, Act: st.Act, V: st.V, I: st.I, Refuse: b.Refuse, Ret: ret, Calls: device.NumCalls(), Device: "-", Cache: "-"}
		for _, e := range device.Content() {
			id := r.W.U.AlphaPath(e.Path)
			if id == "pl.a" {
				ev.Device = strings.TrimPrefix(r.W.U.Datum(r.W.U.Leaf(id), e.Val), "s:")
			} else {
				ev.Device = "other:" + id
			}
		}
		ok, err := r.W.Cache.Exists(ctx, name)
		if err != nil {
			return err
		}
		if !ok {
			ev.Cache = "none"
		} else {
			probe := &env.DS{W: r.W, Name: name}
			in, err := probe.ReadIntended(ctx)
			if err != nil {
				return err
			}
			for _, x := range in {
				if x.Owner == "A" && x.Leaf == "pl.a" && ev.Cache == "-" {
					ev.Cache = strings.TrimPrefix(x.Datum, "s:")
				} else {
					ev.Cache = fmt.Sprintf("other:%v", in)
				}
			}
		}
		j, _ := json.Marshal(ev)
		r.Out.Write(j)
		r.Out.WriteByte('\n')
		return nil
	}
	if err := observe(DsLifeStep{Act: "Reset", V: "-"}, ""); err != nil {
		return err
	}
	defer func() {
		// let parked timer goroutines go and stop what is left
		g.mu.Lock()
		for id, ch := range g.release {
			select {
			case <-ch:
			default:
				close(ch)
			}
			_ = id
		}
		g.mu.Unlock()
		time.Sleep(5 * time.Millisecond)
		if live != nil {
			live.Stop(true)
		} else {
			r.W.Cache.Delete(ctx, name)
		}
	}()
	for _, st := range b.Steps {
		ret := "ok"
		switch st.Act {
		case "Create":
			ds, err := r.W.NewDS(env.DSOpts{Name: name, Device: device, RefuseAfterClose: b.Refuse})
			if err != nil {
				return err
			}
			live, liveInc = ds, st.I
			inc[st.I] = ds
			if err := ds.SyncMirror(ctx); err != nil {
				return err
			}
		case "Set":
			nset++
			id := fmt.Sprintf("%s-i%d-t%d", name, liveInc, nset)
			ti, err := live.D.SdcpbTransactionIntentToInternalTI(ctx, &sdcpb.TransactionIntent{Intent: "A", Priority: 10,
				Update: []*sdcpb.Update{{Path: path, Value: &sdcpb.TypedValue{Value: &sdcpb.TypedValue_StringVal{StringVal: st.V}}}}})
			if err != nil {
				return err
			}
			resp, err := live.D.TransactionSet(ctx, id, []*types.TransactionIntent{ti}, nil, 40*time.Millisecond, false)
			if err != nil {
				ret = "err:" + err.Error()
			} else if len(resp.GetIntents()) > 0 {
				for _, x := range resp.GetIntents() {
					if len(x.GetErrors()) > 0 {
						ret = "invalid"
					}
				}
			}
			openID[liveInc] = id
		case "Confirm":
			if err := live.D.TransactionConfirm(ctx, openID[liveInc]); err != nil {
				ret = "err:" + err.Error()
			}
		case "Cancel":
			if err := live.D.TransactionCancel(ctx, openID[liveInc]); err != nil {
				ret = "err:" + err.Error()
			}
		case "Delete":
			// pkg/server/datastore.go DeleteDataStore: ds.Stop(), ds.DeleteCache(ctx), delete(s.datastores, name)
			live.D.Stop()
			if err := live.D.DeleteCache(ctx); err != nil {
				ret = "err:" + err.Error()
			}
			live, liveInc = nil, 0
		case "TimerFire":
			id := openID[st.I]
			f, rel, d := g.chans(id)
			select {
			case <-f:
			case <-time.After(3 * time.Second):
				return fmt.Errorf("%s: timer of %s did not fire", b.ID, id)
			}
			close(rel)
			select {
			case <-d:
			case <-time.After(10 * time.Second):
				ret = "hung"
			}
		default:
			return fmt.Errorf("unknown act %q", st.Act)
		}
		if live != nil {
			if err := live.SyncMirror(ctx); err != nil {
				return err
			}
		}
		if err := observe(st, ret); err != nil {
			return err
		}
	}
	return nil
}
