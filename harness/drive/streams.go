package drive

import (
	"context"
	"encoding/json"
	"errors"
	"io"
	"runtime"
	"sync"
	"sync/atomic"
	"time"

	"github.com/sdcio/cache/proto/cachepb"
	sdcpb "github.com/sdcio/sdc-protos/sdcpb"
	"google.golang.org/grpc/metadata"

	"verifharness/env"
)

// StreamScript: a streaming handler, the number of subscriptions and the fault the environment injects
type StreamScript struct {
	ID      string   `json:"id"`
	Handler string   `json:"handler"` // subscribe | get
	NSubs   int      `json:"nsubs"`
	Faults  []string `json:"faults"` // sequence of "cancel" | "fail" (Send starts failing) | "stall" (Send blocks) | "exhaust"
	At      int      `json:"at"`     // successful sends before the first fault
	Gap     int      `json:"gap"`    // successful sends between consecutive faults
}

type StreamEvent struct {
	Ev       string   `json:"ev"`
	B        string   `json:"b"`
	Handler  string   `json:"handler"`
	NSubs    int      `json:"nsubs"`
	Faults   []string `json:"faults"`
	At       int      `json:"at"`
	Returned bool     `json:"returned"`
	AfterMs  int      `json:"afterms"` // time between the (last) fault and the return of the handler
	GDelta   int      `json:"gdelta"`  // goroutines alive after the handler returned and things settled, minus before
	Sends    int      `json:"sends"`
	Ret      string   `json:"ret"`
}

type faultStream struct {
	ctx     context.Context
	cancel  context.CancelFunc
	mu      sync.Mutex
	sends   int
	faults  []string
	next    int // index of the next fault to inject
	at, gap int
	failing atomic.Bool
	stalled chan struct{}
	faultAt atomic.Int64
}

func (f *faultStream) inject() {
	// called with mu held when the send counter reaches the next fault position
	for f.next < len(f.faults) {
		pos := f.at + f.next*f.gap
		if f.sends < pos {
			return
		}
		switch f.faults[f.next] {
		case "cancel":
			f.cancel()
		case "fail":
			f.failing.Store(true)
		case "stall":
			if f.stalled == nil {
				f.stalled = make(chan struct{})
			}
		}
		f.faultAt.Store(time.Now().UnixNano())
		f.next++
	}
}

func (f *faultStream) send() error {
	f.mu.Lock()
	f.inject()
	st := f.stalled
	if f.failing.Load() {
		f.mu.Unlock()
		return errors.New("transport is closing")
	}
	f.sends++
	f.mu.Unlock()
	if st != nil {
		select {
		case <-st:
		case <-f.ctx.Done():
			return f.ctx.Err()
		}
	}
	return nil
}
func (f *faultStream) Send(*sdcpb.SubscribeResponse) error { return f.send() }
func (f *faultStream) SetHeader(metadata.MD) error         { return nil }
func (f *faultStream) SendHeader(metadata.MD) error        { return nil }
func (f *faultStream) SetTrailer(metadata.MD)              {}
func (f *faultStream) Context() context.Context            { return f.ctx }
func (f *faultStream) SendMsg(any) error                   { return f.send() }
func (f *faultStream) RecvMsg(any) error                   { return nil }

type StreamRunner struct {
	W   *env.World
	Out io.Writer
	N   int
}

func (r *StreamRunner) Run(sc *StreamScript) error {
	if err := emitJSON(r.Out, map[string]any{"ev": "begin", "b": sc.ID}); err != nil {
		return err
	}
	if fl, ok := r.Out.(interface{ Flush() error }); ok {
		fl.Flush()
	}
	ds, err := r.W.NewDS(env.DSOpts{})
	if err != nil {
		return err
	}
	defer ds.Stop(true)
	ctx := context.Background()
	gr := &GetRunner{W: r.W}
	if err := gr.writeStore(ctx, ds.Name, cachepb.Store_CONFIG, []Pair{{"pl.a", "s:a"}, {"pl.ab", "s:b"}, {"pl.s", "s:a"}, {"s.host", "s:abc"}}); err != nil {
		return err
	}
	time.Sleep(20 * time.Millisecond)
	runtime.GC()
	before := runtime.NumGoroutine()
	sctx, cancel := context.WithCancel(ctx)
	fs := &faultStream{ctx: sctx, cancel: cancel, faults: sc.Faults, at: sc.At, gap: sc.Gap}
	ev := &StreamEvent{Ev: "stream", B: sc.ID, Handler: sc.Handler, NSubs: sc.NSubs, Faults: sc.Faults, At: sc.At}
	if ev.Faults == nil {
		ev.Faults = []string{}
	}
	done := make(chan error, 1)
	u := r.W.U
	switch sc.Handler {
	case "subscribe":
		req := &sdcpb.SubscribeRequest{Name: ds.Name}
		nodes := []string{"plain", "sys", "plain/a", "/"}
		for i := 0; i < sc.NSubs; i++ {
			req.Subscription = append(req.Subscription, &sdcpb.Subscription{
				Path: []*sdcpb.Path{u.NodePath(u.Node(nodes[i%len(nodes)]))}, SampleInterval: uint64(3 * time.Millisecond), DataType: sdcpb.DataType_CONFIG})
		}
		go func() { done <- ds.D.Subscribe(req, fs) }()
	case "get":
		req := &sdcpb.GetDataRequest{Name: ds.Name, Datastore: &sdcpb.DataStore{Type: sdcpb.Type_MAIN}, DataType: sdcpb.DataType_CONFIG, Encoding: sdcpb.Encoding_STRING}
		nodes := []string{"plain", "sys", "plain/a", "/"}
		for i := 0; i < sc.NSubs; i++ {
			req.Path = append(req.Path, u.NodePath(u.Node(nodes[i%len(nodes)])))
		}
		nCh := make(chan *sdcpb.GetDataResponse)
		// consumer like Server.GetData: forwards to the stream until the client is gone
		go func() {
			for {
				select {
				case <-sctx.Done():
					return
				case rsp, ok := <-nCh:
					if !ok {
						return
					}
					fs.SendMsg(rsp)
				}
			}
		}()
		go func() { done <- ds.D.Get(sctx, req, nCh) }()
	}
	// a handler without fault ("exhaust") ends by itself (get) or is cancelled after a while (subscribe)
	exhaust := len(sc.Faults) == 0 || sc.Faults[0] == "exhaust"
	if exhaust && sc.Handler == "subscribe" {
		time.AfterFunc(40*time.Millisecond, func() { fs.faultAt.Store(time.Now().UnixNano()); cancel() })
	}
	select {
	case err := <-done:
		ev.Returned = true
		if err != nil {
			ev.Ret = err.Error()
		}
		if fa := fs.faultAt.Load(); fa != 0 {
			ev.AfterMs = int((time.Now().UnixNano() - fa) / 1e6)
		}
	case <-time.After(2500 * time.Millisecond):
		ev.Returned = false
	}
	cancel()
	// settle, then count goroutines
	deadline := time.Now().Add(600 * time.Millisecond)
	for time.Now().Before(deadline) {
		runtime.GC()
		if runtime.NumGoroutine() <= before {
			break
		}
		time.Sleep(10 * time.Millisecond)
	}
	ev.GDelta = runtime.NumGoroutine() - before
	fs.mu.Lock()
	ev.Sends = fs.sends
	fs.mu.Unlock()
	r.N++
	return emitJSON(r.Out, ev)
}

func emitJSON(w io.Writer, v any) error {
	b, err := json.Marshal(v)
	if err != nil {
		return err
	}
	_, err = w.Write(append(b, '\n'))
	return err
}
