// Package drive replays specification behaviours against the real system and records
// ndjson traces of events with arguments and projected abstract state.
package drive

import (
	"context"
	"encoding/json"
	"errors"
	"fmt"
	"io"
	"sort"
	"strings"
	"time"

	"github.com/sdcio/cache/proto/cachepb"
	"github.com/sdcio/data-server/pkg/config"
	"github.com/sdcio/data-server/pkg/datastore"
	"github.com/sdcio/data-server/pkg/datastore/target"
	"github.com/sdcio/data-server/pkg/datastore/types"
	sdcpb "github.com/sdcio/sdc-protos/sdcpb"

	"verifharness/deco"
	"verifharness/dev"
	"verifharness/env"
	"verifharness/uni"
)

type Pair [2]string

type Intent struct {
	O    string `json:"o"`
	P    int32  `json:"p"`
	Kind string `json:"kind"` // set | del | orphan
	Upd  []Pair `json:"upd"`
	Form string `json:"form,omitempty"` // typed (default) | json | json_ietf
}

type Step struct {
	Op      string   `json:"op"`            // txset | confirm | cancel | wait | restart | probe
	Cfg     []Pair   `json:"cfg,omitempty"` // probe: a whole configuration, submitted as one intent to an empty datastore
	ID      string   `json:"id,omitempty"`
	Dry     bool     `json:"dry,omitempty"`
	TmoMs   int      `json:"tmo,omitempty"`
	MinMs   int      `json:"min,omitempty"`   // wait: minimum duration
	CtxMs   int      `json:"ctxms,omitempty"` // deadline of the call's context (default 3000)
	Intents []Intent `json:"intents,omitempty"`
	Replace *Intent  `json:"replace,omitempty"`
	DevFail bool     `json:"devfail,omitempty"`
	FailAt  int      `json:"failat,omitempty"` // collaborator call index to fail (cache/schema), 0 = none
}

type Behaviour struct {
	ID    string `json:"id"`
	Gamma string `json:"gamma,omitempty"`
	Init  []Pair `json:"init,omitempty"` // initial device content (also mirrored to running)
	Steps []Step `json:"steps"`
	// Validation switches (C04)
	Disabled []string `json:"disabled,omitempty"`
}

// ---- trace event ----

type Change struct {
	Upd    []Pair   `json:"upd"`
	Del    []string `json:"del"`
	DelRaw []string `json:"delraw"`
	Err    bool     `json:"err"`
	// Enc: all renderings of the same TargetSource (device Set calls only, when the runner has Encodings on)
	HasEnc bool       `json:"hasenc"`
	Enc    Renderings `json:"enc"`
}

// XMLRendering is one ToXML rendering: the options and what the document denotes
type XMLRendering struct {
	Opts []bool `json:"opts"` // honorNamespace, operationWithNamespace, useOperationRemove
	uni.XMLChange
	Err string `json:"err"`
	Doc string `json:"doc"`
}

// Renderings: what each southbound encoding of one TargetSource denotes (onlyNewOrUpdated = true) and the full views
type Renderings struct {
	Json     []Pair         `json:"json"`
	Ietf     []Pair         `json:"ietf"`
	XML      []XMLRendering `json:"xml"`
	ProtoAll []Pair         `json:"protoall"` // onlyNewOrUpdated = false
	JsonAll  []Pair         `json:"jsonall"`
	IetfAll  []Pair         `json:"ietfall"`
	XMLAll   []Pair         `json:"xmlall"`
	Errs     []string       `json:"errs"`
}

type Mod struct {
	Store string   `json:"store"`
	O     string   `json:"o"`
	P     int32    `json:"p"`
	Del   []string `json:"del"`
	Upd   []Pair   `json:"upd"`
	Err   bool     `json:"err"`
}

type Post struct {
	Intended [][]any `json:"intended"` // [o, p, l, d]
	Mirror   []Pair  `json:"mirror"`
	Device   []Pair  `json:"device"`
	Open     string  `json:"open"`
	Armed    bool    `json:"armed"`
}

type Event struct {
	Ev      string   `json:"ev"`
	B       string   `json:"b"`
	I       int      `json:"i"`
	ID      string   `json:"id"`
	Dry     bool     `json:"dry"`
	Tmo     int      `json:"tmo"`
	Intents []Intent `json:"intents"`
	HasRepl bool     `json:"hasrepl"`
	Replace Intent   `json:"replace"`
	Ret     string   `json:"ret"`
	ErrMsg  string   `json:"errmsg"`
	Errs    []string `json:"errs"`
	Warns   []string `json:"warns"`
	Resp    Change   `json:"resp"`
	Sets    []Change `json:"sets"`
	Mods    []Mod    `json:"mods"`
	NCalls  int      `json:"ncalls"`
	FailAt  int      `json:"failat"`
	DevFail bool     `json:"devfail"`
	WaitMs  int      `json:"waitms"`
	EnvSync bool     `json:"envsync"`
	// FailKind: kind of the collaborator call that was made to fail ("" if none / not reached)
	FailKind string   `json:"failkind"`
	Disabled []string `json:"disabled"`
	Cfg      []Pair   `json:"cfg"`
	// Since: ms between the return of the last applied TransactionSet and the return of this call (-1: none)
	Since int  `json:"since"`
	Post  Post `json:"post"`
}

func nz[T any](s []T) []T {
	if s == nil {
		return []T{}
	}
	return s
}

type Runner struct {
	W   *env.World
	Out io.Writer
	// per behaviour
	ds    *env.DS
	plan  *deco.Plan
	cdeco *deco.Cache
	sdeco *deco.Schema
	val   *config.Validation
	// NoEnvSync disables the environment sync of the mirror after each step
	NoEnvSync bool
	// Encodings: render every TargetSource in all encodings inside the device's Set (C10, C12)
	Encodings bool
	// Steps executed
	NSteps int
	// time the last applied (ok, non dry) TransactionSet returned
	lastApplied time.Time
}

func (r *Runner) emit(e *Event) error {
	e.EnvSync = !r.NoEnvSync
	e.Intents = nz(e.Intents)
	for i := range e.Intents {
		e.Intents[i].Upd = nz(e.Intents[i].Upd)
	}
	e.Replace.Upd = nz(e.Replace.Upd)
	e.Errs = nz(e.Errs)
	e.Disabled = nz(e.Disabled)
	e.Cfg = nz(e.Cfg)
	e.Warns = nz(e.Warns)
	e.Sets = nz(e.Sets)
	e.Mods = nz(e.Mods)
	fixChange(&e.Resp)
	for i := range e.Sets {
		fixChange(&e.Sets[i])
	}
	for i := range e.Mods {
		e.Mods[i].Del = nz(e.Mods[i].Del)
		e.Mods[i].Upd = nz(e.Mods[i].Upd)
	}
	e.Post.Intended = nz(e.Post.Intended)
	e.Post.Mirror = nz(e.Post.Mirror)
	e.Post.Device = nz(e.Post.Device)
	b, err := json.Marshal(e)
	if err != nil {
		return err
	}
	_, err = r.Out.Write(append(b, '\n'))
	return err
}

func fixChange(c *Change) {
	c.Upd = nz(c.Upd)
	c.Del = nz(c.Del)
	c.DelRaw = nz(c.DelRaw)
	e := &c.Enc
	e.Json, e.Ietf, e.ProtoAll, e.JsonAll, e.IetfAll, e.XMLAll, e.Errs = nz(e.Json), nz(e.Ietf), nz(e.ProtoAll), nz(e.JsonAll), nz(e.IetfAll), nz(e.XMLAll), nz(e.Errs)
	e.XML = nz(e.XML)
	for i := range e.XML {
		e.XML[i].Opts = nz(e.XML[i].Opts)
	}
}

func pairsOf(kvs [][2]string) []Pair {
	out := make([]Pair, 0, len(kvs))
	for _, kv := range kvs {
		out = append(out, Pair{kv[0], kv[1]})
	}
	return out
}

// render calls every TargetSource method on the same tree instance and abstracts the results
func (r *Runner) render(ctx context.Context, src target.TargetSource) *Renderings {
	u := r.W.U
	out := &Renderings{}
	fail := func(what string, err error) { out.Errs = append(out.Errs, what+": "+err.Error()) }
	jdec := func(v any, what string) []Pair {
		b, err := json.Marshal(v)
		if err != nil {
			fail(what, err)
			return nil
		}
		if v == nil || string(b) == "null" {
			return nil
		}
		kvs, err := u.DecodeJSON(b)
		if err != nil {
			fail(what, err)
			return nil
		}
		return pairsOf(kvs)
	}
	for _, only := range []bool{true, false} {
		j, err := src.ToJson(only)
		if err != nil {
			fail("ToJson", err)
		}
		ji, err := src.ToJsonIETF(only)
		if err != nil {
			fail("ToJsonIETF", err)
		}
		if only {
			out.Json, out.Ietf = jdec(j, "json"), jdec(ji, "ietf")
		} else {
			out.JsonAll, out.IetfAll = jdec(j, "jsonall"), jdec(ji, "ietfall")
		}
	}
	if upds, err := src.ToProtoUpdates(ctx, false); err != nil {
		fail("ToProtoUpdates(false)", err)
	} else {
		c := r.absChange(upds, nil)
		out.ProtoAll = c.Upd
	}
	for _, ns := range []bool{false, true} {
		for _, opns := range []bool{false, true} {
			for _, rm := range []bool{false, true} {
				xr := XMLRendering{Opts: []bool{ns, opns, rm}}
				doc, err := src.ToXML(true, ns, opns, rm)
				if err != nil {
					xr.Err = err.Error()
				} else if ch, err := u.DecodeXML(doc, ns); err != nil {
					xr.Err = err.Error()
				} else {
					xr.XMLChange = *ch
					xr.Doc, _ = doc.WriteToString()
				}
				out.XML = append(out.XML, xr)
			}
		}
	}
	if doc, err := src.ToXML(false, true, false, false); err != nil {
		fail("ToXML(false)", err)
	} else if ch, err := u.DecodeXML(doc, true); err != nil {
		fail("DecodeXML(all)", err)
	} else {
		out.XMLAll = pairsOf(ch.Upd)
	}
	return out
}

func validationFor(disabled []string) *config.Validation {
	v := &config.Validation{}
	for _, d := range disabled {
		switch d {
		case "mandatory":
			v.DisabledValidators.Mandatory = true
		case "leafref":
			v.DisabledValidators.Leafref = true
		case "minmax":
			v.DisabledValidators.LeafrefMinMaxAttributes = true
		case "pattern":
			v.DisabledValidators.Pattern = true
		case "must":
			v.DisabledValidators.MustStatement = true
		case "length":
			v.DisabledValidators.Length = true
		case "range":
			v.DisabledValidators.Range = true
		case "maxelements":
			// min/max-elements of leaf-lists are governed by the "leafref-min-max-attributes" switch;
			// the "max-elements" switch is not consulted by the validators (commented out in Validate)
			v.DisabledValidators.LeafrefMinMaxAttributes = true
			v.DisabledValidators.MaxElements = true
		case "sequential":
			v.DisableConcurrency = true
		}
	}
	return v
}

func (r *Runner) open(name string, device *dev.Device) error {
	r.plan = deco.NewPlan()
	r.cdeco = deco.NewCache(r.W.Cache, r.plan)
	r.sdeco = deco.NewSchema(r.W.Schema, r.plan)
	if device == nil {
		device = dev.New()
	}
	if r.Encodings {
		device.OnSet = func(ctx context.Context, src target.TargetSource, call *dev.SetCall) {
			call.Extra = r.render(ctx, src)
		}
	}
	ds, err := r.W.NewDS(env.DSOpts{Name: name, Validation: r.val, Cache: r.cdeco, Schema: r.sdeco, Device: device})
	if err != nil {
		return err
	}
	r.ds = ds
	return nil
}

// Run executes one behaviour on a fresh datastore and writes its trace.
func (r *Runner) Run(b *Behaviour) error {
	if b.Gamma != "" && b.Gamma != r.W.U.Gamma {
		if err := r.W.U.SetGamma(b.Gamma); err != nil {
			return err
		}
	}
	r.val = validationFor(b.Disabled)
	r.lastApplied = time.Time{}
	if err := r.open("", nil); err != nil {
		return err
	}
	defer func() { r.ds.Stop(true) }()
	ctx := context.Background()
	u := r.W.U
	for _, kv := range b.Init {
		l := u.Leaf(kv[0])
		if l == nil {
			return fmt.Errorf("init: unknown leaf %s", kv[0])
		}
		tv, err := r.yangTyped(l, kv[1])
		if err != nil {
			return err
		}
		r.ds.Dev.Put(u.Path(l), tv)
	}
	if err := r.ds.SyncMirror(ctx); err != nil {
		return err
	}
	ev := &Event{Ev: "init", B: b.ID, I: 0, Disabled: b.Disabled}
	if err := r.post(ctx, ev); err != nil {
		return err
	}
	if err := r.emit(ev); err != nil {
		return err
	}
	for i, st := range b.Steps {
		ev := &Event{Ev: st.Op, B: b.ID, I: i + 1, ID: st.ID}
		var err error
		switch st.Op {
		case "txset":
			err = r.txset(ctx, &st, ev)
		case "confirm":
			err = r.confirmCancel(ctx, &st, ev, true)
		case "cancel":
			err = r.confirmCancel(ctx, &st, ev, false)
		case "wait":
			err = r.wait(ctx, &st, ev)
		case "restart":
			err = r.restart(ctx, ev)
		case "probe":
			err = r.probe(ctx, &st, ev)
		default:
			err = fmt.Errorf("unknown op %q", st.Op)
		}
		if err != nil {
			return fmt.Errorf("behaviour %s step %d: %w", b.ID, i+1, err)
		}
		r.NSteps++
		if err := r.emit(ev); err != nil {
			return err
		}
	}
	// cleanup (not part of the behaviour): do not leave a rollback timer behind
	if id, _ := r.ds.D.VerifOpenTxn(); id != "" {
		cctx, cancel := context.WithTimeout(ctx, time.Second)
		r.ds.D.TransactionConfirm(cctx, id)
		cancel()
	}
	return nil
}

// yangTyped returns the value of the YANG type (what a device reports / what is stored).
func (r *Runner) yangTyped(l *uni.Leaf, datum string) (*sdcpb.TypedValue, error) {
	return r.W.U.TypedValue(l, datum)
}

// stamp records how long after the last applied TransactionSet this call returned
func (r *Runner) stamp(ev *Event, applied bool) {
	now := time.Now()
	ev.Since = -1
	if !r.lastApplied.IsZero() {
		ev.Since = int(now.Sub(r.lastApplied).Milliseconds())
	}
	if applied {
		r.lastApplied = now
	}
}

func (r *Runner) buildIntent(ctx context.Context, in *Intent) (*types.TransactionIntent, error) {
	u := r.W.U
	req := &sdcpb.TransactionIntent{Intent: in.O, Priority: in.P}
	switch in.Kind {
	case "del":
		req.Delete = true
	case "orphan":
		req.Delete = true
		req.Orphan = true
	}
	// list entries for which the intent defines a non-key leaf: their keys are implied by the path
	covered := map[string]bool{}
	for _, kv := range in.Upd {
		l := u.Leaf(kv[0])
		if l == nil {
			return nil, fmt.Errorf("unknown leaf %s", kv[0])
		}
		if l.Key == nil && l.Entry != nil {
			covered[*l.Entry] = true
		}
	}
	for _, kv := range in.Upd {
		l := u.Leaf(kv[0])
		if l.Key != nil && covered[*l.Entry] {
			continue
		}
		// a key leaf of an entry the intent only names (keys only) is sent explicitly
		tv, err := u.TypedValue(l, kv[1])
		if err != nil {
			return nil, err
		}
		req.Update = append(req.Update, &sdcpb.Update{Path: u.Path(l), Value: tv})
	}
	return r.ds.D.SdcpbTransactionIntentToInternalTI(ctx, req)
}

func hasErrors(resp *sdcpb.TransactionSetResponse) bool {
	for _, ri := range resp.GetIntents() {
		if len(ri.GetErrors()) > 0 {
			return true
		}
	}
	return false
}

func (r *Runner) absChange(upds []*sdcpb.Update, dels []*sdcpb.Path) Change {
	u := r.W.U
	c := Change{}
	for _, x := range upds {
		id := u.AlphaPath(x.GetPath())
		c.Upd = append(c.Upd, Pair{id, u.Datum(u.Leaf(id), x.GetValue())})
	}
	seen := map[string]bool{}
	for _, p := range dels {
		c.DelRaw = append(c.DelRaw, uni.CanonPath(p))
		ls := u.LeavesAtOrBelow(p)
		for _, l := range ls {
			if !seen[l] {
				seen[l] = true
				c.Del = append(c.Del, l)
			}
		}
	}
	sort.Slice(c.Upd, func(i, j int) bool {
		return c.Upd[i][0] < c.Upd[j][0] || (c.Upd[i][0] == c.Upd[j][0] && c.Upd[i][1] < c.Upd[j][1])
	})
	sort.Strings(c.Del)
	sort.Strings(c.DelRaw)
	return c
}

func (r *Runner) absMods(ms []*deco.ModifyCall) []Mod {
	u := r.W.U
	var out []Mod
	for _, m := range ms {
		x := Mod{O: m.Owner, P: m.Prio, Err: m.Err != nil}
		switch m.Store {
		case cachepb.Store_INTENDED:
			x.Store = "intended"
		case cachepb.Store_CONFIG:
			x.Store = "config"
		case cachepb.Store_STATE:
			x.Store = "state"
		default:
			x.Store = "other"
		}
		for _, d := range m.Dels {
			x.Del = append(x.Del, u.AlphaCachePath(d))
		}
		for _, cu := range m.Upds {
			id := u.AlphaCachePath(cu.GetPath())
			tv, err := cu.Value()
			dt := "undecodable"
			if err == nil {
				dt = u.Datum(u.Leaf(id), tv)
			}
			x.Upd = append(x.Upd, Pair{id, dt})
		}
		sort.Strings(x.Del)
		sort.Slice(x.Upd, func(i, j int) bool { return x.Upd[i][0] < x.Upd[j][0] })
		out = append(out, x)
	}
	return out
}

func (r *Runner) post(ctx context.Context, ev *Event) error {
	r.plan.Disable()
	ie, err := r.ds.ReadIntended(ctx)
	if err != nil {
		return err
	}
	for _, e := range ie {
		ev.Post.Intended = append(ev.Post.Intended, []any{e.Owner, e.Prio, e.Leaf, e.Datum})
	}
	for _, lv := range r.ds.ReadStore(ctx, cachepb.Store_CONFIG) {
		ev.Post.Mirror = append(ev.Post.Mirror, Pair{lv.Leaf, lv.Datum})
	}
	for _, lv := range r.ds.DeviceContent() {
		ev.Post.Device = append(ev.Post.Device, Pair{lv.Leaf, lv.Datum})
	}
	id, armed := r.ds.D.VerifOpenTxn()
	if id == "" {
		id = "-"
	}
	ev.Post.Open, ev.Post.Armed = id, armed
	return nil
}

func (r *Runner) collect(ev *Event, devFrom int) {
	for _, c := range r.ds.Dev.CallsFrom(devFrom) {
		ch := r.absChange(c.Upd, c.Del)
		ch.Err = c.Err != nil
		if rd, ok := c.Extra.(*Renderings); ok && rd != nil {
			ch.HasEnc, ch.Enc = true, *rd
		}
		ev.Sets = append(ev.Sets, ch)
	}
	ev.Mods = r.absMods(r.cdeco.TakeModifies())
	ev.NCalls = r.plan.Total()
	if calls := r.plan.Calls(); ev.FailAt > 0 && ev.FailAt <= len(calls) {
		ev.FailKind = calls[ev.FailAt-1]
	}
}

func (r *Runner) txset(ctx context.Context, st *Step, ev *Event) error {
	ev.Dry, ev.Tmo, ev.Intents, ev.FailAt, ev.DevFail = st.Dry, st.TmoMs, st.Intents, st.FailAt, st.DevFail
	tmo := time.Duration(st.TmoMs) * time.Millisecond
	if st.TmoMs == 0 {
		tmo = 30 * time.Second
		ev.Tmo = 30000
	}
	devFrom := r.ds.Dev.NumCalls()
	r.cdeco.TakeModifies()
	r.plan.Reset(st.FailAt)
	if st.DevFail {
		r.ds.Dev.FailNext = errors.New("injected device failure")
	}
	ctxms := st.CtxMs
	if ctxms == 0 {
		ctxms = 3000
	}
	cctx, cancel := context.WithTimeout(ctx, time.Duration(ctxms)*time.Millisecond)
	defer cancel()
	var tis []*types.TransactionIntent
	var convErr error
	for i := range st.Intents {
		ti, err := r.buildIntent(cctx, &st.Intents[i])
		if err != nil {
			convErr = err
			break
		}
		tis = append(tis, ti)
	}
	var repl *types.TransactionIntent
	if st.Replace != nil && convErr == nil {
		ev.HasRepl, ev.Replace = true, *st.Replace
		repl, convErr = r.buildIntent(cctx, st.Replace)
	}
	if convErr != nil {
		// the conversion is part of the server's TransactionSet handling (pkg/server/transaction.go)
		ev.Ret, ev.ErrMsg = "error", "conversion: "+convErr.Error()
		r.stamp(ev, false)
	} else {
		t0 := time.Now()
		resp, err := r.ds.D.TransactionSet(cctx, st.ID, tis, repl, tmo, st.Dry)
		ev.WaitMs = int(time.Since(t0).Milliseconds())
		r.stamp(ev, err == nil && !st.Dry && !hasErrors(resp))
		switch {
		case err != nil && errors.Is(err, datastore.ErrDatastoreLocked):
			ev.Ret, ev.ErrMsg = "locked", err.Error()
		case err != nil:
			ev.Ret, ev.ErrMsg = "error", err.Error()
		default:
			ev.Ret = "ok"
			names := []string{}
			for n := range resp.GetIntents() {
				names = append(names, n)
			}
			sort.Strings(names)
			for _, n := range names {
				ri := resp.GetIntents()[n]
				if len(ri.GetErrors()) > 0 {
					ev.Ret = "invalid"
					ev.Errs = append(ev.Errs, n)
					ev.ErrMsg += n + ": " + strings.Join(ri.GetErrors(), "; ") + " | "
				}
				if len(ri.GetWarnings()) > 0 {
					ev.Warns = append(ev.Warns, n)
				}
			}
			ev.Resp = r.absChange(resp.GetUpdate(), resp.GetDelete())
		}
	}
	r.ds.Dev.FailNext = nil
	r.collect(ev, devFrom)
	if err := r.post(ctx, ev); err != nil {
		return err
	}
	if !r.NoEnvSync {
		return r.ds.SyncMirror(ctx)
	}
	return nil
}

func (r *Runner) confirmCancel(ctx context.Context, st *Step, ev *Event, confirm bool) error {
	devFrom := r.ds.Dev.NumCalls()
	r.cdeco.TakeModifies()
	// a cancel can carry an injected fault like a TransactionSet (C07: the rollback calls the collaborators too)
	ev.FailAt, ev.DevFail = st.FailAt, st.DevFail
	r.plan.Reset(st.FailAt)
	if st.DevFail {
		r.ds.Dev.FailNext = errors.New("injected device failure")
	}
	cctx, cancel := context.WithTimeout(ctx, 3*time.Second)
	defer cancel()
	var err error
	if confirm {
		err = r.ds.D.TransactionConfirm(cctx, st.ID)
	} else {
		err = r.ds.D.TransactionCancel(cctx, st.ID)
	}
	r.ds.Dev.FailNext = nil
	r.stamp(ev, false)
	switch {
	case err == nil:
		ev.Ret = "ok"
	case errors.Is(err, datastore.ErrDatastoreLocked):
		ev.Ret, ev.ErrMsg = "locked", err.Error()
	default:
		ev.Ret, ev.ErrMsg = "error", err.Error()
	}
	r.collect(ev, devFrom)
	if err := r.post(ctx, ev); err != nil {
		return err
	}
	if !r.NoEnvSync {
		return r.ds.SyncMirror(ctx)
	}
	return nil
}

// wait lets the rollback timer of the open transaction (if any) expire: it returns when
// no transaction is registered any more, or after the bound (tmo of the step, default 400ms).
func (r *Runner) wait(ctx context.Context, st *Step, ev *Event) error {
	devFrom := r.ds.Dev.NumCalls()
	r.cdeco.TakeModifies()
	r.plan.Reset(0)
	bound := time.Duration(st.TmoMs) * time.Millisecond
	if bound == 0 {
		bound = 400 * time.Millisecond
	}
	t0 := time.Now()
	min := time.Duration(st.MinMs) * time.Millisecond
	for time.Since(t0) < bound {
		if id, _ := r.ds.D.VerifOpenTxn(); id == "" && time.Since(t0) >= min {
			break
		}
		time.Sleep(3 * time.Millisecond)
	}
	r.stamp(ev, false)
	// let a rollback in flight finish its writes
	time.Sleep(10 * time.Millisecond)
	ev.WaitMs = int(time.Since(t0).Milliseconds())
	ev.Ret = "ok"
	r.collect(ev, devFrom)
	if err := r.post(ctx, ev); err != nil {
		return err
	}
	if !r.NoEnvSync {
		return r.ds.SyncMirror(ctx)
	}
	return nil
}

// probe submits a whole configuration as ONE intent to a fresh, empty datastore (dry run) and records the verdict.
func (r *Runner) probe(ctx context.Context, st *Step, ev *Event) error {
	ev.Cfg = st.Cfg
	saved := struct {
		ds    *env.DS
		plan  *deco.Plan
		cdeco *deco.Cache
		sdeco *deco.Schema
	}{r.ds, r.plan, r.cdeco, r.sdeco}
	defer func() { r.ds, r.plan, r.cdeco, r.sdeco = saved.ds, saved.plan, saved.cdeco, saved.sdeco }()
	if err := r.open("", nil); err != nil {
		return err
	}
	pds := r.ds
	defer pds.Stop(true)
	cctx, cancel := context.WithTimeout(ctx, 3*time.Second)
	defer cancel()
	in := &Intent{O: "probe", P: 1, Kind: "set", Upd: st.Cfg}
	ti, err := r.buildIntent(cctx, in)
	if err != nil {
		ev.Ret, ev.ErrMsg = "error", "conversion: "+err.Error()
	} else {
		resp, err := pds.D.TransactionSet(cctx, "probe", []*types.TransactionIntent{ti}, nil, 30*time.Second, true)
		switch {
		case err != nil:
			ev.Ret, ev.ErrMsg = "error", err.Error()
		case hasErrors(resp):
			ev.Ret = "invalid"
			for n, ri := range resp.GetIntents() {
				ev.ErrMsg += n + ": " + strings.Join(ri.GetErrors(), "; ") + " | "
			}
		default:
			ev.Ret = "ok"
		}
	}
	// the state of the datastore under test is unchanged; report it as observed
	r.ds, r.plan, r.cdeco, r.sdeco = saved.ds, saved.plan, saved.cdeco, saved.sdeco
	return r.post(ctx, ev)
}

// restart replaces the Datastore (and its schema client memoisation) over the same cache instance and device.
func (r *Runner) restart(ctx context.Context, ev *Event) error {
	name, device := r.ds.Name, r.ds.Dev
	r.ds.Stop(false)
	if err := r.open(name, device); err != nil {
		return err
	}
	ev.Ret = "ok"
	return r.post(ctx, ev)
}
