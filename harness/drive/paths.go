package drive

// Path engine (C11): every instance path of Paths.tla goes through the real conversions
// (ToStrings / CompletePath / ToPath / ToXPath / ParsePath / position in the merge tree) and through the
// places where the joined index key is used (tree.PathSet, the store indexes of the TreeCacheClient).

import (
	"context"
	"encoding/json"
	"fmt"
	"io"
	"regexp"
	"sort"
	"strings"

	"github.com/sdcio/cache/proto/cachepb"
	"github.com/sdcio/data-server/pkg/cache"
	schemaClient "github.com/sdcio/data-server/pkg/datastore/clients/schema"
	"github.com/sdcio/data-server/pkg/tree"
	jsonimp "github.com/sdcio/data-server/pkg/tree/importer/json"
	"github.com/sdcio/data-server/pkg/utils"
	sdcpb "github.com/sdcio/sdc-protos/sdcpb"
	"google.golang.org/protobuf/proto"

	"verifharness/env"
)

type PElem struct {
	Name string      `json:"name"`
	Keys [][2]string `json:"keys"`
}

type PathCase struct {
	P    []PElem  `json:"p"`
	Strs []string `json:"strs"`
}

type PathUniverse struct {
	ID     string     `json:"id"`
	Leaves []PathCase `json:"leaves"`
	Nodes  []PathCase `json:"nodes"`
}

type PathEvent struct {
	Ev   string   `json:"ev"` // setup | conv | pathset | exists | branch
	B    string   `json:"b"`
	P    []PElem  `json:"p"`
	Strs []string `json:"strs"` // the model's element sequence
	Leaf bool     `json:"leaf"`
	Prio int32    `json:"prio"`
	// conv
	Got      []string `json:"got"`
	Complete []string `json:"complete"`
	Back     []PElem  `json:"back"`
	BackErr  string   `json:"backerr"`
	XPath    string   `json:"xpath"`
	Parsed   []PElem  `json:"parsed"`
	ParseErr string   `json:"parseerr"`
	Tree     []PElem  `json:"tree"`
	TreeErr  string   `json:"treeerr"`
	// pathset
	N       int        `json:"n"`
	Count   int        `json:"count"`
	Missing [][]string `json:"missing"`
	// exists
	AbsentExists   bool     `json:"absentexists"`
	AbsentRunning  []string `json:"absentrunning"`
	PresentExists  bool     `json:"presentexists"`
	PresentRunning []string `json:"presentrunning"`
	// branch
	// import: element sequences of the leaves the tree holds after importing the entry as a configuration document
	Imported [][]string `json:"imported"`
	Expected [][]string `json:"expected"`
	ImpErr   string     `json:"imperr"`
	Branch   int32      `json:"branch"`
	Panic    string     `json:"panic"`
}

type PathRunner struct {
	W   *env.World
	Out io.Writer
	N   int
}

func toSdcpb(p []PElem) *sdcpb.Path {
	out := &sdcpb.Path{}
	for _, e := range p {
		pe := &sdcpb.PathElem{Name: e.Name}
		if len(e.Keys) > 0 {
			pe.Key = map[string]string{}
			for _, kv := range e.Keys {
				pe.Key[kv[0]] = kv[1]
			}
		}
		out.Elem = append(out.Elem, pe)
	}
	return out
}

func fromSdcpb(p *sdcpb.Path) []PElem {
	out := []PElem{}
	for _, e := range p.GetElem() {
		pe := PElem{Name: e.GetName(), Keys: [][2]string{}}
		ks := make([]string, 0, len(e.GetKey()))
		for k := range e.GetKey() {
			ks = append(ks, k)
		}
		sort.Strings(ks)
		for _, k := range ks {
			pe.Keys = append(pe.Keys, [2]string{k, e.GetKey()[k]})
		}
		out = append(out, pe)
	}
	return out
}

func sortPaths(ps [][]string) {
	sort.Slice(ps, func(i, j int) bool { return strings.Join(ps[i], "\x00") < strings.Join(ps[j], "\x00") })
}

func nzs(s []string) []string {
	if s == nil {
		return []string{}
	}
	return s
}

func (r *PathRunner) emit(e *PathEvent) error {
	if e.P == nil {
		e.P = []PElem{}
	}
	for i := range e.P {
		if e.P[i].Keys == nil {
			e.P[i].Keys = [][2]string{}
		}
	}
	e.Strs, e.Got, e.Complete = nzs(e.Strs), nzs(e.Got), nzs(e.Complete)
	e.AbsentRunning, e.PresentRunning = nzs(e.AbsentRunning), nzs(e.PresentRunning)
	if e.Back == nil {
		e.Back = []PElem{}
	}
	if e.Parsed == nil {
		e.Parsed = []PElem{}
	}
	if e.Tree == nil {
		e.Tree = []PElem{}
	}
	if e.Missing == nil {
		e.Missing = [][]string{}
	}
	if e.Imported == nil {
		e.Imported = [][]string{}
	}
	if e.Expected == nil {
		e.Expected = [][]string{}
	}
	b, err := json.Marshal(e)
	if err != nil {
		return err
	}
	_, err = r.Out.Write(append(b, '\n'))
	return err
}

// valueFor: a value of the leaf's type (the last element names the leaf)
func valueFor(c *PathCase) *sdcpb.TypedValue {
	last := c.P[len(c.P)-1].Name
	if last == "weight" {
		return &sdcpb.TypedValue{Value: &sdcpb.TypedValue_UintVal{UintVal: 5}}
	}
	// key leaves carry their key value
	if len(c.P) >= 2 {
		for _, kv := range c.P[len(c.P)-2].Keys {
			if kv[0] == last {
				return &sdcpb.TypedValue{Value: &sdcpb.TypedValue_StringVal{StringVal: kv[1]}}
			}
		}
	}
	return &sdcpb.TypedValue{Value: &sdcpb.TypedValue_StringVal{StringVal: "v"}}
}

func guard(what string, ev *PathEvent, f func()) {
	defer func() {
		if x := recover(); x != nil {
			ev.Panic += fmt.Sprintf("%s: %v; ", what, x)
		}
	}()
	f()
}

func (r *PathRunner) Run(u *PathUniverse) error {
	ctx := context.Background()
	ds, err := r.W.NewDS(env.DSOpts{})
	if err != nil {
		return err
	}
	defer ds.Stop(true)
	scb := schemaClient.NewSchemaClientBound(r.W.SchemaRef().GetSchema(), r.W.Schema)
	const owner = "o"
	prioOf := func(i int) int32 { return int32(10 + i) }

	// ---- A. conversions ----
	all := append(append([]PathCase{}, u.Leaves...), u.Nodes...)
	for i := range all {
		c := &all[i]
		isLeaf := i < len(u.Leaves)
		ev := &PathEvent{Ev: "conv", B: u.ID, P: c.P, Strs: c.Strs, Leaf: isLeaf}
		path := toSdcpb(c.P)
		guard("ToStrings", ev, func() { ev.Got = utils.ToStrings(path, false, false) })
		guard("CompletePath", ev, func() {
			cp, err := utils.CompletePath(nil, path)
			if err == nil {
				ev.Complete = cp
			}
		})
		guard("ToPath", ev, func() {
			bp, err := scb.ToPath(ctx, ev.Got)
			if err != nil {
				ev.BackErr = err.Error()
			} else {
				ev.Back = fromSdcpb(bp)
			}
		})
		guard("XPath", ev, func() {
			ev.XPath = utils.ToXPath(path, false)
			pp, err := utils.ParsePath(ev.XPath)
			if err != nil {
				ev.ParseErr = err.Error()
			} else {
				ev.Parsed = fromSdcpb(pp)
			}
		})
		if isLeaf {
			guard("tree", ev, func() {
				tc := tree.NewTreeContext(tree.NewTreeCacheClient(ds.Name, r.W.Cache), scb, ds.Name)
				root, err := tree.NewTreeRoot(ctx, tc)
				if err != nil {
					ev.TreeErr = err.Error()
					return
				}
				val, _ := proto.Marshal(valueFor(c))
				e, err := root.AddCacheUpdateRecursive(ctx, cache.NewUpdate(ev.Got, val, 10, owner, 0), tree.NewUpdateInsertFlags())
				if err != nil {
					ev.TreeErr = err.Error()
					return
				}
				tp, err := e.SdcpbPath()
				if err != nil {
					ev.TreeErr = err.Error()
					return
				}
				ev.Tree = fromSdcpb(tp)
			})
		}
		if err := r.emit(ev); err != nil {
			return err
		}
	}

	// ---- A2. position in the tree when a list entry arrives as a configuration document (ImportConfig) ----
	for i := range u.Nodes {
		c := &u.Nodes[i]
		if len(c.P) != 1 || len(c.P[0].Keys) == 0 {
			continue
		}
		ev := &PathEvent{Ev: "import", B: u.ID, P: c.P, Strs: c.Strs}
		obj := map[string]any{}
		for _, kv := range c.P[0].Keys {
			obj[kv[0]] = kv[1]
			ev.Expected = append(ev.Expected, append(append([]string{}, c.Strs...), kv[0]))
		}
		doc := map[string]any{c.P[0].Name: []any{obj}}
		guard("import", ev, func() {
			tc := tree.NewTreeContext(tree.NewTreeCacheClient(ds.Name, r.W.Cache), scb, ds.Name)
			root, err := tree.NewTreeRoot(ctx, tc)
			if err != nil {
				ev.ImpErr = err.Error()
				return
			}
			if err := root.ImportConfig(ctx, jsonimp.NewJsonTreeImporter(doc), owner, 10); err != nil {
				ev.ImpErr = err.Error()
				return
			}
			for _, lv := range root.GetHighestPrecedence(false) {
				ev.Imported = append(ev.Imported, lv.Update.GetPath())
			}
		})
		sortPaths(ev.Imported)
		sortPaths(ev.Expected)
		if err := r.emit(ev); err != nil {
			return err
		}
	}

	// ---- B. uses of the joined index key ----
	// the cache library compiles every path element it is asked to read as a regular expression (keyToPrefixPattern):
	// values with regular expression metacharacters cannot be read back, which is outside this repository
	{
		safe := u.Leaves[:0:0]
		for _, c := range u.Leaves {
			ok := true
			for _, s := range c.Strs {
				ok = ok && regexp.QuoteMeta(s) == s
			}
			if ok {
				safe = append(safe, c)
			}
		}
		u = &PathUniverse{ID: u.ID, Leaves: safe, Nodes: u.Nodes}
		all = append(append([]PathCase{}, u.Leaves...), u.Nodes...)
	}
	// all the leaves are written to the intended store (one owner, a distinct priority per leaf) and to the running store
	write := func(i int) error {
		c := &u.Leaves[i]
		val, _ := proto.Marshal(valueFor(c))
		if err := r.W.Cache.Modify(ctx, ds.Name, &cache.Opts{Store: cachepb.Store_INTENDED, Owner: owner, Priority: prioOf(i)}, nil,
			[]*cache.Update{cache.NewUpdate(c.Strs, val, prioOf(i), owner, 0)}); err != nil {
			return err
		}
		return r.W.Cache.Modify(ctx, ds.Name, &cache.Opts{Store: cachepb.Store_CONFIG}, nil, []*cache.Update{cache.NewUpdate(c.Strs, val, 0, "", 0)})
	}
	remove := func(i int) error {
		c := &u.Leaves[i]
		if err := r.W.Cache.Modify(ctx, ds.Name, &cache.Opts{Store: cachepb.Store_INTENDED, Owner: owner, Priority: prioOf(i)}, [][]string{c.Strs}, nil); err != nil {
			return err
		}
		return r.W.Cache.Modify(ctx, ds.Name, &cache.Opts{Store: cachepb.Store_CONFIG}, [][]string{c.Strs}, nil)
	}
	for i := range u.Leaves {
		if err := write(i); err != nil {
			return err
		}
		if err := r.emit(&PathEvent{Ev: "stored", B: u.ID, P: u.Leaves[i].P, Strs: u.Leaves[i].Strs, Leaf: true, Prio: prioOf(i)}); err != nil {
			return err
		}
	}
	// PathSet
	{
		ev := &PathEvent{Ev: "pathset", B: u.ID, N: len(u.Leaves)}
		guard("PathSet", ev, func() {
			ps := tree.NewPathSet()
			for i := range u.Leaves {
				ps.AddPath(u.Leaves[i].Strs)
			}
			got := map[string]bool{}
			for _, p := range ps.GetPaths() {
				b, _ := json.Marshal([]string(p))
				got[string(b)] = true
			}
			ev.Count = len(ps.GetPaths())
			for i := range u.Leaves {
				b, _ := json.Marshal(u.Leaves[i].Strs)
				if !got[string(b)] {
					ev.Missing = append(ev.Missing, u.Leaves[i].Strs)
				}
			}
		})
		if err := r.emit(ev); err != nil {
			return err
		}
	}
	// existence and running reads, with the path absent and present
	for i := range u.Leaves {
		c := &u.Leaves[i]
		ev := &PathEvent{Ev: "exists", B: u.ID, P: c.P, Strs: c.Strs, Leaf: true, Prio: prioOf(i)}
		if err := remove(i); err != nil {
			return err
		}
		guard("absent", ev, func() {
			tcc := tree.NewTreeCacheClient(ds.Name, r.W.Cache)
			ev.AbsentExists, _ = tcc.IntendedPathExists(ctx, c.Strs)
			if upd, err := tcc.ReadRunningPath(ctx, c.Strs); err == nil && upd != nil {
				ev.AbsentRunning = upd.GetPath()
				if len(ev.AbsentRunning) == 0 {
					ev.AbsentRunning = []string{"?"}
				}
			}
		})
		if err := write(i); err != nil {
			return err
		}
		guard("present", ev, func() {
			tcc := tree.NewTreeCacheClient(ds.Name, r.W.Cache)
			ev.PresentExists, _ = tcc.IntendedPathExists(ctx, c.Strs)
			if upd, err := tcc.ReadRunningPath(ctx, c.Strs); err == nil && upd != nil {
				ev.PresentRunning = upd.GetPath()
			}
		})
		if err := r.emit(ev); err != nil {
			return err
		}
	}
	// precedence of branches
	tcc := tree.NewTreeCacheClient(ds.Name, r.W.Cache)
	for i := range all {
		c := &all[i]
		ev := &PathEvent{Ev: "branch", B: u.ID, P: c.P, Strs: c.Strs, Leaf: i < len(u.Leaves)}
		guard("branch", ev, func() { ev.Branch = tcc.GetBranchesHighesPrecedence(ctx, c.Strs) })
		if err := r.emit(ev); err != nil {
			return err
		}
	}
	r.N++
	return nil
}
