package drive

import (
	"context"
	"encoding/json"
	"fmt"
	"io"
	"math/rand"
	"sort"
	"strings"
	"sync"
	"sync/atomic"
	"time"

	"github.com/sdcio/cache/proto/cachepb"
	"github.com/sdcio/data-server/pkg/cache"
	"github.com/sdcio/data-server/pkg/config"
	"github.com/sdcio/data-server/pkg/datastore/target"
	sdcpb "github.com/sdcio/sdc-protos/sdcpb"

	"verifharness/dev"
	"verifharness/env"
	"verifharness/uni"
)

// SyncMsg is one message of the device's notification stream
type SyncMsg struct {
	Kind  string   `json:"kind"` // start | end | notif
	Force bool     `json:"force,omitempty"`
	Del   []string `json:"del"` // node ids
	Upd   []Pair   `json:"upd"`
}

type SyncScript struct {
	ID       string    `json:"id"`
	Gamma    string    `json:"gamma,omitempty"`
	Workers  int64     `json:"workers"`
	Validate bool      `json:"validate"`
	Seed     int64     `json:"seed"`
	Msgs     []SyncMsg `json:"msgs"`
}

// SyncEvent: one linearised event of the run (order = order of completion under the decorator's lock)
type SyncEvent struct {
	Ev       string    `json:"ev"` // script | prune_create | prune_apply | modify | quiescent
	B        string    `json:"b"`
	Seq      int       `json:"seq"`
	Workers  int64     `json:"workers"`
	Validate bool      `json:"validate"`
	Msgs     []SyncMsg `json:"msgs"`
	Store    string    `json:"store"`
	Del      []string  `json:"del"` // node ids ("?..." if not a node of the universe)
	Upd      []Pair    `json:"upd"`
	Config   []Pair    `json:"config"`
	State    []Pair    `json:"state"`
	MaxPar   int       `json:"maxpar"` // max number of Modify calls in flight at once
	Err      bool      `json:"err"`
}

// syncCache linearises the cache calls of the sync path and logs them
type syncCache struct {
	cache.Client
	mu       sync.Mutex
	rnd      *rand.Rand
	rmu      sync.Mutex
	events   []*SyncEvent
	inflight atomic.Int32
	maxpar   atomic.Int32
	last     atomic.Int64
	u        *uni.Universe
	nodeBy   map[string]string
	on       atomic.Bool
}

func (c *syncCache) touch() { c.last.Store(time.Now().UnixNano()) }

func (c *syncCache) jitter() {
	c.rmu.Lock()
	d := time.Duration(c.rnd.Intn(4000)) * time.Microsecond
	c.rmu.Unlock()
	time.Sleep(d)
}

func (c *syncCache) Modify(ctx context.Context, name string, opts *cache.Opts, dels [][]string, upds []*cache.Update) error {
	if !c.on.Load() || (opts.Store != cachepb.Store_CONFIG && opts.Store != cachepb.Store_STATE) {
		return c.Client.Modify(ctx, name, opts, dels, upds)
	}
	n := c.inflight.Add(1)
	for {
		m := c.maxpar.Load()
		if n <= m || c.maxpar.CompareAndSwap(m, n) {
			break
		}
	}
	c.touch()
	c.jitter()
	c.mu.Lock()
	err := c.Client.Modify(ctx, name, opts, dels, upds)
	ev := &SyncEvent{Ev: "modify", Store: "config", Err: err != nil}
	if opts.Store == cachepb.Store_STATE {
		ev.Store = "state"
	}
	for _, d := range dels {
		if id, ok := c.nodeBy[strings.Join(d, "\x00")]; ok {
			ev.Del = append(ev.Del, id)
		} else {
			ev.Del = append(ev.Del, "?"+strings.Join(d, ","))
		}
	}
	for _, cu := range upds {
		id := c.u.AlphaCachePath(cu.GetPath())
		tv, e2 := cu.Value()
		dt := "undecodable"
		if e2 == nil {
			dt = c.u.Datum(c.u.Leaf(id), tv)
		}
		ev.Upd = append(ev.Upd, Pair{id, dt})
	}
	c.events = append(c.events, ev)
	c.mu.Unlock()
	c.inflight.Add(-1)
	c.touch()
	return err
}

func (c *syncCache) CreatePruneID(ctx context.Context, name string, force bool) (string, error) {
	c.touch()
	c.mu.Lock()
	defer c.mu.Unlock()
	id, err := c.Client.CreatePruneID(ctx, name, force)
	c.events = append(c.events, &SyncEvent{Ev: "prune_create", Err: err != nil})
	c.touch()
	return id, err
}

func (c *syncCache) ApplyPrune(ctx context.Context, name, id string) error {
	c.touch()
	c.mu.Lock()
	defer c.mu.Unlock()
	err := c.Client.ApplyPrune(ctx, name, id)
	c.events = append(c.events, &SyncEvent{Ev: "prune_apply", Err: err != nil})
	c.touch()
	return err
}

type SyncRunner struct {
	W   *env.World
	Out io.Writer
	N   int
}

func (r *SyncRunner) Run(sc *SyncScript) error {
	if sc.Gamma != "" && sc.Gamma != r.W.U.Gamma {
		if err := r.W.U.SetGamma(sc.Gamma); err != nil {
			return err
		}
	}
	u := r.W.U
	scache := &syncCache{Client: r.W.Cache, rnd: rand.New(rand.NewSource(sc.Seed)), u: u, nodeBy: map[string]string{}}
	for _, n := range u.Nodes {
		scache.nodeBy[strings.Join(pathStrings(u.NodePath(n)), "\x00")] = n.ID
	}
	sent := make(chan struct{})
	device := dev.New()
	device.SyncFn = func(ctx context.Context, _ *config.Sync, ch chan *target.SyncUpdate) {
		for _, m := range sc.Msgs {
			su := &target.SyncUpdate{}
			switch m.Kind {
			case "start":
				su.Start, su.Force = true, m.Force
			case "end":
				su.End = true
			default:
				n := &sdcpb.Notification{Timestamp: time.Now().UnixNano()}
				for _, d := range m.Del {
					n.Delete = append(n.Delete, u.NodePath(u.Node(d)))
				}
				for _, kv := range m.Upd {
					l := u.Leaf(kv[0])
					tv, _ := u.TypedValue(l, kv[1])
					n.Update = append(n.Update, &sdcpb.Update{Path: u.Path(l), Value: tv})
				}
				su.Update = n
			}
			select {
			case ch <- su:
			case <-ctx.Done():
				return
			}
		}
		close(sent)
		<-ctx.Done()
	}
	scache.on.Store(true)
	ds, err := r.W.NewDS(env.DSOpts{Cache: scache, Device: device,
		Sync: &config.Sync{Validate: sc.Validate, Buffer: 4, WriteWorkers: sc.Workers}})
	if err != nil {
		return err
	}
	defer ds.Stop(true)
	select {
	case <-sent:
	case <-time.After(20 * time.Second):
		return fmt.Errorf("script %s: the sync loop did not take the stream", sc.ID)
	}
	// quiescence: nothing in flight and no cache call for a settle interval
	scache.touch()
	deadline := time.Now().Add(20 * time.Second)
	for time.Now().Before(deadline) {
		if scache.inflight.Load() == 0 && time.Since(time.Unix(0, scache.last.Load())) > 80*time.Millisecond {
			break
		}
		time.Sleep(5 * time.Millisecond)
	}
	scache.on.Store(false)
	ctx := context.Background()
	scache.mu.Lock()
	events := scache.events
	scache.mu.Unlock()
	out := []*SyncEvent{{Ev: "script", Msgs: sc.Msgs}}
	out = append(out, events...)
	q := &SyncEvent{Ev: "quiescent", MaxPar: int(scache.maxpar.Load())}
	for _, lv := range ds.ReadStore(ctx, cachepb.Store_CONFIG) {
		q.Config = append(q.Config, Pair{lv.Leaf, lv.Datum})
	}
	for _, lv := range ds.ReadStore(ctx, cachepb.Store_STATE) {
		q.State = append(q.State, Pair{lv.Leaf, lv.Datum})
	}
	out = append(out, q)
	for i, e := range out {
		e.B, e.Seq, e.Workers, e.Validate = sc.ID, i, sc.Workers, sc.Validate
		if e.Msgs == nil {
			e.Msgs = []SyncMsg{}
		}
		for j := range e.Msgs {
			if e.Msgs[j].Del == nil {
				e.Msgs[j].Del = []string{}
			}
			if e.Msgs[j].Upd == nil {
				e.Msgs[j].Upd = []Pair{}
			}
		}
		if e.Del == nil {
			e.Del = []string{}
		}
		e.Upd, e.Config, e.State = nzp(e.Upd), nzp(e.Config), nzp(e.State)
		sort.Strings(e.Del)
		b, err := json.Marshal(e)
		if err != nil {
			return err
		}
		if _, err := r.Out.Write(append(b, '\n')); err != nil {
			return err
		}
	}
	r.N++
	return nil
}

// pathStrings: the []string form of a path as the sync path builds it (utils.ToStrings: key values by sorted key name)
func pathStrings(p *sdcpb.Path) []string {
	var out []string
	for _, e := range p.GetElem() {
		out = append(out, e.GetName())
		ks := make([]string, 0, len(e.GetKey()))
		for k := range e.GetKey() {
			ks = append(ks, k)
		}
		sort.Strings(ks)
		for _, k := range ks {
			out = append(out, e.GetKey()[k])
		}
	}
	return out
}
