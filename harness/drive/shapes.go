package drive

// Shape engine (C20): every applicable combination of Shapes.tla (entry point x node kind x path shape x key shape x
// value kind) is instantiated against the verification schema and sent through the real entry point.
// The only acceptable outcomes are a response or an error: no panic, no hang.

import (
	"context"
	"encoding/json"
	"fmt"
	"io"
	"math"
	"runtime/debug"
	"strings"
	"sync/atomic"
	"time"

	"github.com/beevik/etree"
	"github.com/sdcio/cache/proto/cachepb"
	"github.com/sdcio/data-server/pkg/config"
	schemaClient "github.com/sdcio/data-server/pkg/datastore/clients/schema"
	"github.com/sdcio/data-server/pkg/datastore/target"
	"github.com/sdcio/data-server/pkg/datastore/target/netconf"
	"github.com/sdcio/data-server/pkg/datastore/types"
	"github.com/sdcio/data-server/pkg/tree"
	jsonimp "github.com/sdcio/data-server/pkg/tree/importer/json"
	xmlimp "github.com/sdcio/data-server/pkg/tree/importer/xml"
	"github.com/sdcio/data-server/pkg/utils"
	sdcpb "github.com/sdcio/sdc-protos/sdcpb"
	"google.golang.org/protobuf/proto"
	"google.golang.org/protobuf/types/known/anypb"

	"verifharness/dev"
	"verifharness/env"
)

type ShapeBatch struct {
	ID     string      `json:"id"`
	Shapes [][5]string `json:"shapes"` // entry, node, path, key, val
	// string level: every string over Alphabet up to MaxLen goes through the path parser family
	Alphabet []string `json:"alphabet"`
	MaxLen   int      `json:"maxlen"`
}

type StringsEvent struct {
	Ev       string   `json:"ev"`
	B        string   `json:"b"`
	Alphabet []string `json:"alphabet"`
	MaxLen   int      `json:"maxlen"`
	Count    int      `json:"count"`
	Parsed   int      `json:"parsed"`
	Panics   []string `json:"panics"`
	Hang     string   `json:"hang"`
}

// allStrings runs f on every string over the alphabet up to maxLen
func allStrings(alphabet []string, maxLen int, f func(string)) {
	var rec func(prefix string, n int)
	rec = func(prefix string, n int) {
		f(prefix)
		if n == maxLen {
			return
		}
		for _, a := range alphabet {
			rec(prefix+a, n+1)
		}
	}
	rec("", 0)
}

func (r *ShapeRunner) runStrings(b *ShapeBatch) error {
	ev := &StringsEvent{Ev: "strings", B: b.ID, Alphabet: b.Alphabet, MaxLen: b.MaxLen, Panics: []string{}}
	var cur atomic.Value
	cur.Store("")
	done := make(chan struct{})
	go func() {
		defer close(done)
		call := func(what, in string, f func()) {
			defer func() {
				if x := recover(); x != nil && len(ev.Panics) < 50 {
					ev.Panics = append(ev.Panics, fmt.Sprintf("%s(%q): %v @ %s", what, in, x, repoFrames()))
				}
			}()
			f()
		}
		allStrings(b.Alphabet, b.MaxLen, func(in string) {
			cur.Store(in)
			ev.Count++
			var parsed *sdcpb.Path
			call("ParsePath", in, func() {
				p, err := utils.ParsePath(in)
				if err == nil {
					parsed = p
					ev.Parsed++
				}
			})
			call("StripPathElemPrefix", in, func() { utils.StripPathElemPrefix(in) })
			call("CompletePathFromString", in, func() { utils.CompletePathFromString(in) })
			if parsed != nil {
				call("ToXPath", in, func() { utils.ParsePath(utils.ToXPath(parsed, false)) })
				call("StripPathElemPrefixPath", in, func() { utils.StripPathElemPrefixPath(parsed) })
				call("ToStrings", in, func() { utils.ToStrings(parsed, true, false) })
			}
		})
	}()
	select {
	case <-done:
	case <-time.After(20 * time.Minute):
		ev.Hang = fmt.Sprintf("no progress; last input %q", cur.Load())
	}
	return r.write(ev)
}

type ShapeEvent struct {
	Ev      string    `json:"ev"`
	B       string    `json:"b"`
	I       int       `json:"i"`
	S       [5]string `json:"s"`
	Outcome string    `json:"outcome"` // response | error | panic | hang
	Detail  string    `json:"detail"`
	Ms      int       `json:"ms"`
}

type ShapeRunner struct {
	W   *env.World
	Out io.Writer
	N   int
	// the second update / path of the compound shape being run (nil otherwise)
	comp       *sdcpb.Path
	compBefore bool
}

type sElem struct {
	name string
	keys [][2]string // in key-statement order
}

func basePath(node string) []sElem {
	item := sElem{"item", [][2]string{{"name", "k1"}}}
	pair := sElem{"pair", [][2]string{{"zone", "z1"}, {"app", "a1"}}}
	triple := sElem{"triple", [][2]string{{"k3", "t3"}, {"k1", "t1"}, {"k2", "t2"}}}
	e := func(n string) sElem { return sElem{name: n} }
	switch node {
	case "root":
		return nil
	case "container":
		return []sElem{e("plain")}
	case "container2":
		return []sElem{e("sys")}
	case "presence":
		return []sElem{e("sys"), e("svc")}
	case "list":
		return []sElem{e("item")}
	case "list2":
		return []sElem{e("pair")}
	case "list3":
		return []sElem{e("triple")}
	case "entry":
		return []sElem{item}
	case "entry2":
		return []sElem{pair}
	case "entry3":
		return []sElem{triple}
	case "leaf.string":
		return []sElem{e("plain"), e("a")}
	case "leaf.uint":
		return []sElem{e("plain"), e("n")}
	case "leaf.enum":
		return []sElem{item, e("mode")}
	case "leaf.leafref":
		return []sElem{e("sys"), e("primary")}
	case "leaf.must":
		return []sElem{e("sys"), e("guard")}
	case "leaf.state":
		return []sElem{e("sys"), e("uptime")}
	case "leaflist":
		return []sElem{e("sys"), e("tags")}
	case "keyleaf":
		return []sElem{item, e("name")}
	case "keyleaf2":
		return []sElem{pair, e("zone")}
	case "choice":
		return []sElem{item, e("tcp-port")}
	case "entryleaf":
		return []sElem{item, e("val")}
	case "entry2leaf":
		return []sElem{pair, e("weight")}
	case "entry3leaf":
		return []sElem{triple, e("v")}
	case "augmented":
		return []sElem{e("sys"), e("ext")}
	case "presenceleaf":
		return []sElem{e("sys"), e("svc"), e("id")}
	}
	if strings.HasPrefix(node, "ty.") {
		return []sElem{e("types"), e(node[3:])}
	}
	return []sElem{e("nosuchnode")}
}

// bend applies the key shape to the last list element and the path shape to the whole path
func bend(p []sElem, pathShape, keyShape string) ([]sElem, string) {
	out := make([]sElem, len(p))
	for i := range p {
		out[i] = sElem{p[i].name, append([][2]string(nil), p[i].keys...)}
	}
	last := -1
	for i := range out {
		if len(out[i].keys) > 0 {
			last = i
		}
	}
	if last >= 0 {
		k := out[last].keys
		switch keyShape {
		case "none":
			k = nil
		case "one_missing":
			k = k[1:]
		case "extra":
			k = append(k, [2]string{"bogus", "x"})
		case "empty_value":
			k[0][1] = ""
		case "wrong_name":
			k[0][0] = "nokey"
		case "weird_value":
			k[0][1] = `a/b[c]=d e\`
		}
		out[last].keys = k
	}
	origin := ""
	switch pathShape {
	case "unknown_last":
		if len(out) == 0 {
			out = append(out, sElem{name: "nosuch"})
		} else {
			out[len(out)-1].name = "nosuch"
		}
	case "unknown_mid":
		out = append([]sElem{{name: "nosuch"}}, out...)
	case "empty_name":
		if len(out) == 0 {
			out = append(out, sElem{name: ""})
		} else {
			out[len(out)-1].name = ""
		}
	case "below_leaf":
		out = append(out, sElem{name: "below"})
	case "module_prefixed":
		for i := range out {
			out[i].name = "vf:" + out[i].name
		}
	case "bad_prefix":
		for i := range out {
			out[i].name = "zz:" + out[i].name
		}
	case "origin":
		origin = "vf"
	case "deep":
		for i := 0; i < 64; i++ {
			out = append(out, sElem{name: "sub"})
		}
	case "keys_on_nonlist":
		for i := range out {
			if len(out[i].keys) == 0 {
				out[i].keys = [][2]string{{"k", "v"}}
				break
			}
		}
	case "nil_elem":
		// a repeated path element: the last element twice
		if len(out) > 0 {
			out = append(out, out[len(out)-1])
		}
	case "plus_keyless_before", "plus_keyless_after":
		// the entry's key values are the name of a leaf of the list (see companionOf)
		if last >= 0 {
			if leaf := leafOfList[out[last].name]; leaf != "" {
				for i := range out[last].keys {
					out[last].keys[i][1] = leaf
				}
			}
		}
	}
	return out, origin
}

// a leaf below each list of the verification schema
var leafOfList = map[string]string{"item": "val", "pair": "weight", "triple": "v"}

// companionOf: the second update / path of a compound path shape: the same path again ("twice") or the key-less
// path to a leaf of the last list of the path, whose name the entry's key values carry.
func companionOf(bent []sElem, origin, pathShape string) (p *sdcpb.Path, before bool) {
	switch pathShape {
	case "twice":
		return toPath(bent, origin), false
	case "plus_keyless_before", "plus_keyless_after":
		last := -1
		for i := range bent {
			if len(bent[i].keys) > 0 {
				last = i
			}
		}
		if last < 0 || leafOfList[bent[last].name] == "" {
			return nil, false
		}
		c := append([]sElem(nil), bent[:last]...)
		c = append(c, sElem{name: bent[last].name}, sElem{name: leafOfList[bent[last].name]})
		return toPath(c, origin), pathShape == "plus_keyless_before"
	}
	return nil, false
}

// withCompanion orders the main update and the companion (same kind of value on both)
func withCompanion(main *sdcpb.Update, comp *sdcpb.Path, before bool) []*sdcpb.Update {
	if comp == nil {
		return []*sdcpb.Update{main}
	}
	c := &sdcpb.Update{Path: comp, Value: &sdcpb.TypedValue{Value: &sdcpb.TypedValue_StringVal{StringVal: "x"}}}
	if proto.Equal(comp, main.GetPath()) {
		c.Value = main.GetValue()
	}
	if before {
		return []*sdcpb.Update{c, main}
	}
	return []*sdcpb.Update{main, c}
}

func toPath(p []sElem, origin string) *sdcpb.Path {
	out := &sdcpb.Path{Origin: origin}
	for _, e := range p {
		pe := &sdcpb.PathElem{Name: e.name}
		if len(e.keys) > 0 {
			pe.Key = map[string]string{}
			for _, kv := range e.keys {
				pe.Key[kv[0]] = kv[1]
			}
		}
		out.Elem = append(out.Elem, pe)
	}
	return out
}

// repoFrames: the frames of the panicking goroutine that belong to the repository
func repoFrames() string {
	var out []string
	for _, line := range strings.Split(string(debug.Stack()), "\n") {
		line = strings.TrimSpace(line)
		if strings.HasPrefix(line, "/repo/") {
			if i := strings.IndexByte(line, ' '); i > 0 {
				line = line[:i]
			}
			out = append(out, strings.TrimPrefix(line, "/repo/"))
		}
		if len(out) >= 4 {
			break
		}
	}
	return strings.Join(out, " < ")
}

// memberNames: the member names of the verification schema (every node kind occurs)
var memberNames = []string{"item", "pair", "triple", "plain", "sys", "types", "ch", "conc", "host", "hostname", "desc", "primary", "guard", "tags", "uptime", "feat", "svc", "level", "id",
	"a", "ab", "n", "sub", "s", "name", "val", "mode", "oper", "tcp-port", "zone", "app", "weight", "alpha", "beta", "x", "e", "u8", "i64", "d2", "b", "en", "idr", "un", "str", "bin", "bits", "ll-u8", "ll-str", "ext", "xc"}

func deepJSON(n int) string {
	return strings.Repeat(`{"a":`, n) + "1" + strings.Repeat("}", n)
}

// jsonDoc: the JSON text of the JSON value kinds
func jsonDoc(kind string) (string, bool) {
	switch kind {
	case "json_num":
		return "5", true
	case "json_str":
		return `"x"`, true
	case "json_obj_empty":
		return "{}", true
	case "json_arr_empty":
		return "[]", true
	case "json_null":
		return "null", true
	case "json_deep":
		return deepJSON(300), true
	case "json_malformed":
		return `{"a":`, true
	case "json_unknown_member":
		return `{"nosuch": 1}`, true
	case "json_obj_for_leaf":
		return `{"a": {"x": {"y": 1}}, "name": {"z": 1}, "val": [1, 2]}`, true
	case "json_list_ok":
		return `[{"name": "k9", "val": "v"}]`, true
	case "json_list_nokey":
		return `{"item": [{"val": "v"}], "pair": [{"zone": "z"}], "val": "v"}`, true
	case "json_list_scalar":
		return `[1, 2]`, true
	case "ietf_prefixed":
		return `{"vf:a": "x", "vf:item": [{"vf:name": "k9"}]}`, true
	case "ietf_bad_prefix":
		return `{"zz:a": "x", ":": 1, "vf:": 2}`, true
	case "json_bigint":
		return `123456789012345678901234567890`, true
	case "json_float_for_int":
		return `1.5`, true
	}
	// "member:<name>:<kind>": a document with ONE member, whose value is of the given JSON kind - whatever node kind
	// (container, presence container, list, leaf, leaf-list) the member is at the addressed node, it meets every JSON kind.
	// (one member per document: the order in which the members of a JSON object are processed is random)
	if strings.HasPrefix(kind, "member:") {
		parts := strings.SplitN(kind, ":", 3)
		var v string
		switch parts[2] {
		case "null":
			v = "null"
		case "num":
			v = "5"
		case "bool":
			v = "true"
		case "str":
			v = `"s"`
		case "arr_empty":
			v = "[]"
		case "arr":
			v = "[1]"
		case "arr_null":
			v = "[null]"
		case "arr_nested":
			v = "[[1], {}]"
		case "obj_empty":
			v = "{}"
		default:
			v = `{"x": 1}`
		}
		return `{"` + parts[1] + `":` + v + `}`, true
	}
	return "", false
}

func valueOf(kind string) *sdcpb.TypedValue {
	s := func(v string) *sdcpb.TypedValue {
		return &sdcpb.TypedValue{Value: &sdcpb.TypedValue_StringVal{StringVal: v}}
	}
	if doc, ok := jsonDoc(kind); ok {
		if strings.HasPrefix(kind, "ietf") {
			return &sdcpb.TypedValue{Value: &sdcpb.TypedValue_JsonIetfVal{JsonIetfVal: []byte(doc)}}
		}
		return &sdcpb.TypedValue{Value: &sdcpb.TypedValue_JsonVal{JsonVal: []byte(doc)}}
	}
	switch kind {
	case "nil":
		return nil
	case "unset":
		return &sdcpb.TypedValue{}
	case "string":
		return s("x")
	case "string_empty":
		return s("")
	case "string_num":
		return s("5")
	case "ascii":
		return &sdcpb.TypedValue{Value: &sdcpb.TypedValue_AsciiVal{AsciiVal: "x"}}
	case "int_neg":
		return &sdcpb.TypedValue{Value: &sdcpb.TypedValue_IntVal{IntVal: -1}}
	case "int_min":
		return &sdcpb.TypedValue{Value: &sdcpb.TypedValue_IntVal{IntVal: math.MinInt64}}
	case "uint":
		return &sdcpb.TypedValue{Value: &sdcpb.TypedValue_UintVal{UintVal: 5}}
	case "uint_max":
		return &sdcpb.TypedValue{Value: &sdcpb.TypedValue_UintVal{UintVal: math.MaxUint64}}
	case "bool":
		return &sdcpb.TypedValue{Value: &sdcpb.TypedValue_BoolVal{BoolVal: true}}
	case "bytes":
		return &sdcpb.TypedValue{Value: &sdcpb.TypedValue_BytesVal{BytesVal: []byte{0, 1, 255}}}
	case "decimal":
		return &sdcpb.TypedValue{Value: &sdcpb.TypedValue_DecimalVal{DecimalVal: &sdcpb.Decimal64{Digits: 15, Precision: 1}}}
	case "decimal_prec":
		return &sdcpb.TypedValue{Value: &sdcpb.TypedValue_DecimalVal{DecimalVal: &sdcpb.Decimal64{Digits: math.MinInt64, Precision: 4000000000}}}
	case "double":
		return &sdcpb.TypedValue{Value: &sdcpb.TypedValue_DoubleVal{DoubleVal: 1.5}}
	case "double_nan":
		return &sdcpb.TypedValue{Value: &sdcpb.TypedValue_DoubleVal{DoubleVal: math.NaN()}}
	case "float":
		return &sdcpb.TypedValue{Value: &sdcpb.TypedValue_FloatVal{FloatVal: float32(math.Inf(1))}}
	case "empty":
		return &sdcpb.TypedValue{Value: &sdcpb.TypedValue_EmptyVal{}}
	case "ll_empty":
		return &sdcpb.TypedValue{Value: &sdcpb.TypedValue_LeaflistVal{LeaflistVal: &sdcpb.ScalarArray{}}}
	case "ll_strings":
		return &sdcpb.TypedValue{Value: &sdcpb.TypedValue_LeaflistVal{LeaflistVal: &sdcpb.ScalarArray{Element: []*sdcpb.TypedValue{s("a"), s("b")}}}}
	case "ll_nested":
		inner := &sdcpb.TypedValue{Value: &sdcpb.TypedValue_LeaflistVal{LeaflistVal: &sdcpb.ScalarArray{Element: []*sdcpb.TypedValue{s("a")}}}}
		return &sdcpb.TypedValue{Value: &sdcpb.TypedValue_LeaflistVal{LeaflistVal: &sdcpb.ScalarArray{Element: []*sdcpb.TypedValue{inner, inner}}}}
	case "ll_nilelem":
		// an element without a value
		return &sdcpb.TypedValue{Value: &sdcpb.TypedValue_LeaflistVal{LeaflistVal: &sdcpb.ScalarArray{Element: []*sdcpb.TypedValue{{}, s("a")}}}}
	case "ll_mixed":
		return &sdcpb.TypedValue{Value: &sdcpb.TypedValue_LeaflistVal{LeaflistVal: &sdcpb.ScalarArray{Element: []*sdcpb.TypedValue{s("a"),
			{Value: &sdcpb.TypedValue_UintVal{UintVal: 5}}, {Value: &sdcpb.TypedValue_BoolVal{BoolVal: true}}, {Value: &sdcpb.TypedValue_JsonVal{JsonVal: []byte(`{"a":1}`)}}}}}}
	case "any_nil":
		return &sdcpb.TypedValue{Value: &sdcpb.TypedValue_AnyVal{AnyVal: &anypb.Any{}}}
	case "protobytes":
		return &sdcpb.TypedValue{Value: &sdcpb.TypedValue_ProtoBytes{ProtoBytes: []byte{1, 2, 3}}}
	case "idref_unknown":
		return &sdcpb.TypedValue{Value: &sdcpb.TypedValue_IdentityrefVal{IdentityrefVal: &sdcpb.IdentityRef{Value: "nosuch", Prefix: "zz", Module: "zz"}}}
	case "idref_nil":
		return &sdcpb.TypedValue{Value: &sdcpb.TypedValue_IdentityrefVal{IdentityrefVal: &sdcpb.IdentityRef{}}}
	}
	return s("x")
}

// textOf: the text a value kind has inside an XML / JSON configuration document
func textOf(kind string) string {
	switch kind {
	case "string_empty":
		return ""
	case "string_num":
		return "5"
	case "json_bigint":
		return "123456789012345678901234567890"
	}
	return "x"
}

// xmlDoc builds the configuration document of a bent path (keys are child elements)
func xmlDoc(p []sElem, kind string) *etree.Document {
	doc := etree.NewDocument()
	cur := doc.CreateElement("data")
	for i, e := range p {
		cur = cur.CreateElement(e.name)
		if i == 0 {
			cur.CreateAttr("xmlns", "urn:verif/vf")
		}
		for _, kv := range e.keys {
			cur.CreateElement(kv[0]).SetText(kv[1])
		}
	}
	switch kind {
	case "json_obj_empty":
		// an element without text and children
	case "ll_strings":
		if par := cur.Parent(); par != nil {
			sib := par.CreateElement(cur.Tag)
			sib.SetText("b")
		}
		cur.SetText("a")
	case "json_deep":
		for i := 0; i < 300; i++ {
			cur = cur.CreateElement("a")
		}
	case "json_unknown_member":
		cur.CreateElement("nosuch").SetText("1")
	case "json_list_nokey":
		cur.CreateElement("item").CreateElement("val").SetText("v")
	default:
		cur.SetText(textOf(kind))
	}
	return doc
}

// jsonConfig builds the configuration document of a bent path as JSON (lists are arrays of objects)
func jsonConfig(p []sElem, kind string) any {
	var leafVal any = textOf(kind)
	switch kind {
	case "json_obj_empty":
		leafVal = map[string]any{}
	case "ll_strings":
		leafVal = []any{"a", "b"}
	case "json_deep":
		var v any = 1.0
		for i := 0; i < 300; i++ {
			v = map[string]any{"a": v}
		}
		leafVal = v
	case "json_unknown_member":
		leafVal = map[string]any{"nosuch": 1.0}
	case "json_list_nokey":
		leafVal = map[string]any{"item": []any{map[string]any{"val": "v"}}}
	case "json_bigint":
		leafVal = 1.2345678901234568e29
	}
	var build func(i int) any
	build = func(i int) any {
		if i == len(p) {
			return leafVal
		}
		e := p[i]
		inner := build(i + 1)
		if len(e.keys) > 0 {
			obj := map[string]any{}
			for _, kv := range e.keys {
				obj[kv[0]] = kv[1]
			}
			if m, ok := inner.(map[string]any); ok {
				for k, v := range m {
					obj[k] = v
				}
			} else if i+1 < len(p) {
				obj[p[i+1].name] = inner
			}
			return map[string]any{e.name: []any{obj}}
		}
		return map[string]any{e.name: inner}
	}
	return build(0)
}

func (r *ShapeRunner) write(v any) error {
	b, err := json.Marshal(v)
	if err != nil {
		return err
	}
	if _, err := r.Out.Write(append(b, '\n')); err != nil {
		return err
	}
	if f, ok := r.Out.(interface{ Flush() error }); ok {
		return f.Flush()
	}
	return nil
}

func (r *ShapeRunner) Run(b *ShapeBatch) error {
	if len(b.Alphabet) > 0 {
		return r.runStrings(b)
	}
	ctx := context.Background()
	device := dev.New()
	syncIn := make(chan *target.SyncUpdate)
	device.SyncFn = func(ctx context.Context, _ *config.Sync, ch chan *target.SyncUpdate) {
		for {
			select {
			case su := <-syncIn:
				select {
				case ch <- su:
				case <-ctx.Done():
					return
				}
			case <-ctx.Done():
				return
			}
		}
	}
	ds, err := r.W.NewDS(env.DSOpts{Device: device, Sync: &config.Sync{Validate: false, Buffer: 1, WriteWorkers: 1}})
	if err != nil {
		return err
	}
	defer ds.Stop(true)
	scb := schemaClient.NewSchemaClientBound(r.W.SchemaRef().GetSchema(), r.W.Schema)
	var sentinel atomic.Int64
	for i, s := range b.Shapes {
		if err := r.write(map[string]any{"ev": "begin", "b": b.ID, "i": i, "s": s}); err != nil {
			return err
		}
		ev := &ShapeEvent{Ev: "shape", B: b.ID, I: i, S: s}
		entry, node, pshape, kshape, vkind := s[0], s[1], s[2], s[3], s[4]
		bent, origin := bend(basePath(node), pshape, kshape)
		path := toPath(bent, origin)
		if pshape == "absent" {
			path = nil
		}
		r.comp, r.compBefore = companionOf(bent, origin, pshape)
		done := make(chan res, 1)
		t0 := time.Now()
		go func() {
			defer func() {
				if x := recover(); x != nil {
					done <- res{"panic", fmt.Sprint(x) + " @ " + repoFrames()}
				}
			}()
			cctx, cancel := context.WithTimeout(ctx, 8*time.Second)
			defer cancel()
			kinds := []string{vkind}
			if strings.HasPrefix(vkind, "members_") {
				kinds = kinds[:0]
				for _, n := range memberNames {
					kinds = append(kinds, "member:"+n+":"+strings.TrimPrefix(vkind, "members_"))
				}
			}
			var last res
			for k, vk := range kinds {
				last = r.callShape(cctx, ctx, ds, scb, syncIn, &sentinel, b.ID, i*1000+k, entry, path, bent, vk)
				if last.outcome != "response" && last.outcome != "error" {
					break
				}
			}
			done <- last
		}()
		select {
		case x := <-done:
			ev.Outcome, ev.Detail = x.outcome, x.detail
		case <-time.After(20 * time.Second):
			ev.Outcome, ev.Detail = "hang", "no answer within 20 s"
		}
		ev.Ms = int(time.Since(t0).Milliseconds())
		if len(ev.Detail) > 300 {
			ev.Detail = ev.Detail[:300]
		}
		if err := r.write(ev); err != nil {
			return err
		}
		if strings.HasPrefix(ev.Detail, "cancel: ") {
			// the applied transaction could not be cancelled and stays open until it expires: start over
			return fmt.Errorf("transaction left open at %s %d", b.ID, i)
		}
		if ev.Outcome == "hang" {
			// the goroutine may still hold locks of this datastore: start over with a fresh one
			return fmt.Errorf("hang at %s %d", b.ID, i)
		}
	}
	r.N++
	return nil
}

type res struct {
	outcome, detail string
}

// callShape sends one instantiated shape through its entry point
func (r *ShapeRunner) callShape(cctx, ctx context.Context, ds *env.DS, scb *schemaClient.SchemaClientBoundImpl, syncIn chan *target.SyncUpdate, sentinel *atomic.Int64,
	bid string, i int, entry string, path *sdcpb.Path, bent []sElem, vkind string) res {
	errOut := func(err error) res {
		if err != nil {
			return res{"error", err.Error()}
		}
		return res{"response", ""}
	}
	switch entry {
	case "set_dry", "set_apply":
		req := &sdcpb.TransactionIntent{Intent: "s", Priority: 10, Update: withCompanion(&sdcpb.Update{Path: path, Value: valueOf(vkind)}, r.comp, r.compBefore)}
		ti, err := ds.D.SdcpbTransactionIntentToInternalTI(cctx, req)
		if err != nil {
			return errOut(err)
		}
		id := fmt.Sprintf("%s-%d", bid, i)
		resp, err := ds.D.TransactionSet(cctx, id, []*types.TransactionIntent{ti}, nil, 30*time.Second, entry == "set_dry")
		if err != nil {
			return errOut(err)
		}
		if entry == "set_apply" && !hasErrors(resp) {
			// restore the empty datastore
			if err := ds.D.TransactionCancel(cctx, id); err != nil {
				return res{"error", "cancel: " + err.Error()}
			}
		}
		return res{"response", ""}
	case "get":
		var firstErr error
		for _, which := range []sdcpb.Type{sdcpb.Type_MAIN, sdcpb.Type_INTENDED} {
			for _, enc := range []sdcpb.Encoding{sdcpb.Encoding_STRING, sdcpb.Encoding_PROTO, sdcpb.Encoding_JSON, sdcpb.Encoding_JSON_IETF} {
				req := &sdcpb.GetDataRequest{Name: ds.Name, Datastore: &sdcpb.DataStore{Type: which}, DataType: sdcpb.DataType_ALL, Encoding: enc, Path: []*sdcpb.Path{path}}
				if r.comp != nil {
					req.Path = append(req.Path, r.comp)
				}
				nCh := make(chan *sdcpb.GetDataResponse)
				errCh := make(chan error, 1)
				go func() {
					defer func() {
						if x := recover(); x != nil {
							errCh <- fmt.Errorf("PANIC: %v", x)
							close(nCh)
						}
					}()
					errCh <- ds.D.Get(cctx, req, nCh)
				}()
				for range nCh {
				}
				if err := <-errCh; err != nil {
					if strings.HasPrefix(err.Error(), "PANIC: ") {
						return res{"panic", err.Error()}
					}
					if firstErr == nil {
						firstErr = err
					}
				}
			}
		}
		return errOut(firstErr)
	case "sync":
		n := &sdcpb.Notification{Timestamp: time.Now().UnixNano(), Update: withCompanion(&sdcpb.Update{Path: path, Value: valueOf(vkind)}, r.comp, r.compBefore)}
		select {
		case syncIn <- &target.SyncUpdate{Update: n}:
		case <-cctx.Done():
			return res{"hang", "the sync loop does not take the notification"}
		}
		// a second, well-formed notification: the writer is sequential, so once it is stored the first one was handled
		mark := sentinel.Add(1)
		sn := &sdcpb.Notification{Timestamp: time.Now().UnixNano(), Update: []*sdcpb.Update{{
			Path:  &sdcpb.Path{Elem: []*sdcpb.PathElem{{Name: "plain"}, {Name: "sub"}, {Name: "s"}}},
			Value: &sdcpb.TypedValue{Value: &sdcpb.TypedValue_StringVal{StringVal: fmt.Sprintf("m%d", mark)}}}}}
		select {
		case syncIn <- &target.SyncUpdate{Update: sn}:
		case <-cctx.Done():
			return res{"hang", "the sync loop does not take the sentinel"}
		}
		want := fmt.Sprintf("s:m%d", mark)
		for cctx.Err() == nil {
			for _, lv := range ds.ReadStore(ctx, cachepb.Store_CONFIG) {
				if lv.Leaf == "pl.s" && lv.Datum == want {
					return res{"response", ""}
				}
			}
			time.Sleep(2 * time.Millisecond)
		}
		return res{"hang", "the sentinel notification was never stored"}
	case "xml":
		_, err := netconf.NewXML2sdcpbConfigAdapter(scb).Transform(cctx, xmlDoc(bent, vkind))
		return errOut(err)
	case "import_json", "import_xml":
		tc := tree.NewTreeContext(tree.NewTreeCacheClient(ds.Name, r.W.Cache), scb, ds.Name)
		root, err := tree.NewTreeRoot(cctx, tc)
		if err != nil {
			return errOut(err)
		}
		if entry == "import_json" {
			err = root.ImportConfig(cctx, jsonimp.NewJsonTreeImporter(jsonConfig(bent, vkind)), "imp", 10)
		} else {
			err = root.ImportConfig(cctx, xmlimp.NewXmlTreeImporter(xmlDoc(bent, vkind).Root()), "imp", 10)
		}
		return errOut(err)
	default:
		return res{"error", "unknown entry"}
	}
	return res{"error", "unknown entry"}
}
