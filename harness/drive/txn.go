package drive

import (
	"context"
	"encoding/json"
	"errors"
	"fmt"
	"io"
	"strings"
	"sync"
	"time"

	"github.com/sdcio/data-server/pkg/datastore"
	"github.com/sdcio/data-server/pkg/datastore/target"
	"github.com/sdcio/data-server/pkg/datastore/types"
	"github.com/sdcio/data-server/pkg/verifhook"

	"verifharness/dev"
	"verifharness/env"
)

// TxnBehaviour is one schedule of the TxnImpl specification: T1 is applied, then the operations in
// Ops run concurrently with T1's rollback timer, interleaved at yield-point granularity as Schedule says.
type TxnBehaviour struct {
	ID        string     `json:"id"`
	Ops       []string   `json:"ops"` // subset of confirm, cancel, set2
	ConfirmID string     `json:"confirmId"`
	CancelID  string     `json:"cancelId"`
	Schedule  [][]string `json:"schedule"` // [process, yield point it leaves]
	// Free: do not gate, let the Go scheduler decide (used for stress / race-detector runs)
	Free bool `json:"free,omitempty"`
	// Press: follow the schedule until the first device call after T1 (a rollback or T2's apply); inside that call -
	// i.e. inside a critical section of the life cycle - every parked goroutine is let go and given time to run.
	// Properly locked sections make them wait; the outcome clauses hold for every interleaving.
	Press bool `json:"press,omitempty"`
}

type TxnEvent struct {
	Ev        string            `json:"ev"`
	B         string            `json:"b"`
	Ops       []string          `json:"ops"`
	ConfirmID string            `json:"confirmId"`
	CancelID  string            `json:"cancelId"`
	Fires     bool              `json:"fires"`
	Answers   map[string]string `json:"answers"`
	ErrMsgs   map[string]string `json:"errmsgs"`
	Rollbacks int               `json:"rollbacks"` // rollbacks of T1 observed on the device
	DevCalls  int               `json:"devcalls"`
	Open      string            `json:"open"`
	Armed     bool              `json:"armed"`
	Hung      []string          `json:"hung"`
	Followed  int               `json:"followed"` // schedule steps the real code followed
	Drift     string            `json:"drift"`    // first point where the code did not follow the schedule ("" = followed)
	// Refused: at the drift point the model has the process parked behind a successful dmutex.TryLock, but the
	// real call had already returned "locked": the code held the datastore mutex where the model does not
	Refused   string     `json:"refused"`
	Seen      [][]string `json:"seen"`      // yield points actually passed, in order
	T1Present bool       `json:"t1present"` // T1's intent still in the intended store
	T2Present bool       `json:"t2present"`
}

type gate struct {
	point string
	ch    chan struct{}
}

type txnSched struct {
	mu        sync.Mutex
	enabled   bool
	free      bool
	parked    map[string]*gate // process -> gate it is parked at
	arrive    chan string      // process names arriving at a gate
	seen      [][]string
	timerDone bool
	relocks   int
	// giveUp is called when set2 arrives at set.relock for the MaxRetry-th time: the model's Set gives up then
	giveUp  func()
	pressed bool
}

// press: called inside a device call; lets every parked goroutine go (once) and gives them time
func (s *txnSched) press() {
	s.mu.Lock()
	if !s.enabled || s.pressed {
		s.mu.Unlock()
		return
	}
	s.pressed = true
	s.mu.Unlock()
	s.releaseAll()
	time.Sleep(60 * time.Millisecond)
}

func (s *txnSched) isPressed() bool {
	s.mu.Lock()
	defer s.mu.Unlock()
	return s.pressed
}

func procOf(point, id string) string {
	switch {
	case strings.HasPrefix(point, "timer."):
		return "timer"
	case strings.HasPrefix(point, "confirm."):
		return "confirm"
	case strings.HasPrefix(point, "cancel."):
		return "cancel"
	case strings.HasPrefix(point, "set."):
		if strings.HasPrefix(id, "T2") {
			return "set2"
		}
	}
	return ""
}

func (s *txnSched) yield(point, id string) {
	s.mu.Lock()
	if !s.enabled {
		s.mu.Unlock()
		return
	}
	p := procOf(point, id)
	if p == "" {
		s.mu.Unlock()
		return
	}
	if point == "timer.done" {
		// not a model step: marks the end of the timer goroutine's work
		s.timerDone = true
		s.mu.Unlock()
		select {
		case s.arrive <- p:
		default:
		}
		return
	}
	if point == "set.relock" && !s.free {
		s.relocks++
		if s.relocks >= 2 && s.giveUp != nil {
			// MaxRetry = 2 registration attempts in the model: the context of the Set expires now
			s.giveUp()
			s.mu.Unlock()
			return
		}
	}
	s.seen = append(s.seen, []string{p, point})
	if s.free {
		s.mu.Unlock()
		return
	}
	g := &gate{point: point, ch: make(chan struct{})}
	s.parked[p] = g
	s.mu.Unlock()
	select {
	case s.arrive <- p:
	default:
	}
	<-g.ch
}

// parkedAt returns the yield point process p is parked at ("" if it is not parked)
func (s *txnSched) parkedAt(p string) string {
	s.mu.Lock()
	defer s.mu.Unlock()
	if g, ok := s.parked[p]; ok {
		return g.point
	}
	return ""
}

func (s *txnSched) release(p string) bool {
	s.mu.Lock()
	g, ok := s.parked[p]
	if ok {
		delete(s.parked, p)
	}
	s.mu.Unlock()
	if ok {
		close(g.ch)
	}
	return ok
}

func (s *txnSched) releaseAll() {
	s.mu.Lock()
	s.free = true
	gs := s.parked
	s.parked = map[string]*gate{}
	s.mu.Unlock()
	for _, g := range gs {
		close(g.ch)
	}
}

type TxnRunner struct {
	W   *env.World
	Out io.Writer
	N   int
}

func classify(err error) (string, string) {
	switch {
	case err == nil:
		return "ok", ""
	case errors.Is(err, datastore.ErrDatastoreLocked):
		return "locked", err.Error()
	default:
		return "err", err.Error()
	}
}

func (r *TxnRunner) emit(v any) error {
	b, err := json.Marshal(v)
	if err != nil {
		return err
	}
	_, err = r.Out.Write(append(b, '\n'))
	return err
}

func (r *TxnRunner) Run(b *TxnBehaviour) error {
	// marker first: if a production goroutine panics, the process dies and the marker tells which behaviour ran
	if err := r.emit(map[string]any{"ev": "begin", "b": b.ID}); err != nil {
		return err
	}
	if f, ok := r.Out.(interface{ Flush() error }); ok {
		f.Flush()
	}
	ds, err := r.W.NewDS(env.DSOpts{})
	if err != nil {
		return err
	}
	defer ds.Stop(true)
	ctx := context.Background()
	u := r.W.U
	ev := &TxnEvent{Ev: "txn", B: b.ID, Ops: b.Ops, ConfirmID: b.ConfirmID, CancelID: b.CancelID,
		Answers: map[string]string{}, ErrMsgs: map[string]string{}, Hung: []string{}}
	for _, st := range b.Schedule {
		if isFire(st) {
			ev.Fires = true
		}
	}
	if b.Free {
		ev.Fires = true
	}
	sch := &txnSched{parked: map[string]*gate{}, arrive: make(chan string, 16), free: b.Free}
	verifhook.SetYieldFn(sch.yield)
	defer verifhook.SetYieldFn(nil)

	mk := func(owner string, prio int32, leaf, datum string) (*types.TransactionIntent, error) {
		rr := &Runner{W: r.W}
		rr.ds = ds
		return rr.buildIntent(ctx, &Intent{O: owner, P: prio, Kind: "set", Upd: []Pair{{leaf, datum}}})
	}
	// T1 is applied (gating off)
	t1, err := mk("A", 10, "pl.a", "s:a")
	if err != nil {
		return err
	}
	tmo := 30 * time.Second
	if ev.Fires {
		tmo = 30 * time.Millisecond
	}
	c1, cancel1 := context.WithTimeout(ctx, 3*time.Second)
	_, err = ds.D.TransactionSet(c1, "T1", []*types.TransactionIntent{t1}, nil, tmo, false)
	cancel1()
	if err != nil {
		return fmt.Errorf("setup T1: %w", err)
	}
	devBase := ds.Dev.NumCalls()
	if b.Press {
		ds.Dev.OnSet = func(context.Context, target.TargetSource, *dev.SetCall) { sch.press() }
	}
	sch.mu.Lock()
	sch.enabled = true
	sch.mu.Unlock()
	_ = u

	// launch the operations; each parks at its first yield point
	var wg sync.WaitGroup
	var amu sync.Mutex
	finished := map[string]bool{}
	doneCh := make(chan string, 8)
	launch := func(p string, f func() error) {
		wg.Add(1)
		go func() {
			defer wg.Done()
			ret, msg := classify(f())
			amu.Lock()
			ev.Answers[p], ev.ErrMsgs[p] = ret, msg
			finished[p] = true
			amu.Unlock()
			doneCh <- p
		}()
	}
	has := func(op string) bool {
		for _, o := range b.Ops {
			if o == op {
				return true
			}
		}
		return false
	}
	t2, err := mk("B", 20, "pl.ab", "s:b")
	if err != nil {
		return err
	}
	if has("confirm") {
		launch("confirm", func() error {
			c, cf := context.WithTimeout(ctx, 3*time.Second)
			defer cf()
			return ds.D.TransactionConfirm(c, b.ConfirmID)
		})
	}
	if has("cancel") {
		launch("cancel", func() error {
			c, cf := context.WithTimeout(ctx, 3*time.Second)
			defer cf()
			return ds.D.TransactionCancel(c, b.CancelID)
		})
	}
	if has("set2") {
		c, cf := context.WithTimeout(ctx, 3*time.Second)
		if b.Free {
			c, cf = context.WithTimeout(ctx, 450*time.Millisecond)
		}
		sch.mu.Lock()
		sch.giveUp = cf
		sch.mu.Unlock()
		launch("set2", func() error {
			// the context bounds how long the Set waits for the slot: it is cancelled after MaxRetry attempts (model)
			defer cf()
			resp, err := ds.D.TransactionSet(c, "T2", []*types.TransactionIntent{t2}, nil, 30*time.Second, false)
			if err == nil && hasErrors(resp) {
				return errors.New("validation errors")
			}
			return err
		})
	}
	isFinished := func(p string) bool {
		if p == "timer" {
			sch.mu.Lock()
			defer sch.mu.Unlock()
			return sch.timerDone
		}
		amu.Lock()
		defer amu.Unlock()
		return finished[p]
	}
	// waitFor: process p is parked at a yield point, or has finished
	waitFor := func(p string, d time.Duration) bool {
		deadline := time.Now().Add(d)
		for time.Now().Before(deadline) {
			if sch.parkedAt(p) != "" || isFinished(p) {
				return true
			}
			select {
			case <-sch.arrive:
			case <-doneCh:
			case <-time.After(2 * time.Millisecond):
			}
		}
		return sch.parkedAt(p) != "" || isFinished(p)
	}
	if !b.Free {
		for _, op := range b.Ops {
			waitFor(op, time.Second)
		}
		// follow the schedule
		for i, st := range b.Schedule {
			if sch.isPressed() {
				break // everybody runs freely from here on
			}
			p, from := st[0], st[1]
			if p == "timer" && from == "timer.armed" {
				// the model step "the timer fires": wait until the goroutine is parked after firing;
				// the model step "stopped before it fired" needs nothing (the goroutine just ends)
				if isFire(st) {
					if !waitFor("timer", 2*time.Second) || sch.parkedAt("timer") != "timer.fired" {
						ev.Drift = fmt.Sprintf("step %d: timer did not park at timer.fired (at %q)", i, sch.parkedAt("timer"))
						break
					}
				}
				ev.Followed++
				continue
			}
			at := sch.parkedAt(p)
			if at == "" {
				if p == "timer" || isFinished(p) {
					// the code took fewer steps than the model for this process (e.g. no separate lock step)
					ev.Drift = fmt.Sprintf("step %d: %s not parked (model leaves %s)", i, p, from)
					amu.Lock()
					if strings.HasSuffix(from, ".lock") && ev.Answers[p] == "locked" {
						ev.Refused = p
					}
					amu.Unlock()
				} else {
					ev.Drift = fmt.Sprintf("step %d: %s not parked and not finished", i, p)
				}
				break
			}
			if at != from {
				ev.Drift = fmt.Sprintf("step %d: %s parked at %s, model says %s", i, p, at, from)
				break
			}
			sch.release(p)
			if !waitFor(p, 1500*time.Millisecond) {
				ev.Drift = fmt.Sprintf("step %d: %s did not reach its next yield point after %s", i, p, from)
				break
			}
			ev.Followed++
		}
	}
	// free run to completion
	sch.releaseAll()
	wdone := make(chan struct{})
	go func() { wg.Wait(); close(wdone) }()
	select {
	case <-wdone:
	case <-time.After(4 * time.Second):
		amu.Lock()
		for _, op := range b.Ops {
			if !finished[op] {
				ev.Hung = append(ev.Hung, op)
			}
		}
		amu.Unlock()
	}
	// let a fired timer finish its rollback
	if ev.Fires {
		deadline := time.Now().Add(1500 * time.Millisecond)
		for time.Now().Before(deadline) {
			if id, _ := ds.D.VerifOpenTxn(); id != "T1" {
				break
			}
			time.Sleep(5 * time.Millisecond)
		}
	}
	time.Sleep(30 * time.Millisecond)
	sch.mu.Lock()
	sch.enabled = false
	ev.Seen = sch.seen
	sch.mu.Unlock()
	ev.DevCalls = ds.Dev.NumCalls() - devBase
	amu.Lock()
	n := ev.DevCalls
	if ev.Answers["set2"] == "ok" {
		n-- // T2's own apply
		if b.CancelID == "T2" && ev.Answers["cancel"] == "ok" {
			n-- // rollback of T2
		}
	}
	amu.Unlock()
	ev.Rollbacks = n
	id, armed := ds.D.VerifOpenTxn()
	if id == "" {
		id = "-"
	}
	ev.Open, ev.Armed = id, armed
	ie, err := ds.ReadIntended(ctx)
	if err != nil {
		return err
	}
	for _, e := range ie {
		if e.Owner == "A" {
			ev.T1Present = true
		}
		if e.Owner == "B" {
			ev.T2Present = true
		}
	}
	if ev.Seen == nil {
		ev.Seen = [][]string{}
	}
	// cleanup: no timer may outlive the behaviour
	if id != "-" {
		c, cf := context.WithTimeout(ctx, time.Second)
		ds.D.TransactionConfirm(c, id)
		cf()
	}
	r.N++
	return r.emit(ev)
}

func isFire(st []string) bool {
	return len(st) >= 3 && st[0] == "timer" && st[1] == "timer.armed" && st[2] == "timer.fired"
}
