package drive

// Validation concurrency engine (C17): the same transaction on the same state is validated sequentially
// (DisableConcurrency) and concurrently, repeatedly and with different GOMAXPROCS; the verdict (errors and warnings)
// must be the same.  The harness binary for this engine is built with -race: the race detector watches the
// validators load defaults lazily into each other's branches.

import (
	"context"
	"encoding/json"
	"fmt"
	"io"
	"runtime"
	"sort"
	"strings"
	"sync"
	"sync/atomic"
	"time"

	"github.com/sdcio/data-server/pkg/config"
	"github.com/sdcio/data-server/pkg/datastore/types"
	"github.com/sdcio/data-server/pkg/verifhook"
	sdcpb "github.com/sdcio/sdc-protos/sdcpb"

	"verifharness/env"
)

type ConcScenario struct {
	ID      string   `json:"id"`
	N       int      `json:"n"`       // list entries
	Feats   []string `json:"feats"`   // what the entries carry: peer, check, gcheck, rcheck, gname, opt, tags, dcheck
	Defects []string `json:"defects"` // dangling_peer, weight_low, limit_low, role_b, missing_mandatory, too_many_tags, range, dangling_gname
	Running bool     `json:"running"` // a first transaction puts half of the entries on the device (running store)
	// Replace: all entries are on the device; the verdict is the one of a REPLACE intent that keeps three quarters of them
	// (the replace flow does not preload running: what the kept entries refer to is loaded on demand during validation)
	Replace bool  `json:"replace"`
	Reps    int   `json:"reps"`
	Procs   []int `json:"procs"`
}

type ConcEvent struct {
	Ev       string   `json:"ev"`
	B        string   `json:"b"`
	N        int      `json:"n"`
	Feats    []string `json:"feats"`
	Defects  []string `json:"defects"`
	Replace  bool     `json:"replace"`
	Mode     string   `json:"mode"` // seq | conc
	Procs    int      `json:"procs"`
	Rep      int      `json:"rep"`
	Ret      string   `json:"ret"`
	Errors   []string `json:"errors"`
	Warnings []string `json:"warnings"`
	Updates  int      `json:"updates"`
	// lazy creation of children during this validation: validators that were held at the look-up miss of the same
	// child until a second one arrived (the schedule in which both create it), and children that were overwritten
	Paired     int `json:"paired"`
	Overwrites int `json:"overwrites"`
}

// missGate holds a validator that did not find an on-demand child until another validator misses the same child
// (or a few milliseconds pass): the adversarial schedule of ValConc.tla with Atomic = FALSE.
type missGate struct {
	mu         sync.Mutex
	waiting    map[string]chan struct{}
	on         atomic.Bool
	paired     atomic.Int64
	overwrites atomic.Int64
}

var lazyNames = map[string]bool{"peer": true, "tag": true, "global": true, "limit": true, "name": true, "deep": true, "x": true, "weight": true, "role": true, "note": true}

func (g *missGate) yield(point, id string) {
	if !g.on.Load() {
		return
	}
	switch point {
	case "tree.child.overwrite":
		g.overwrites.Add(1)
	case "tree.child.miss":
		if !lazyNames[id] && !strings.HasPrefix(id, "n0") {
			return
		}
		g.mu.Lock()
		if ch, ok := g.waiting[id]; ok {
			delete(g.waiting, id)
			g.mu.Unlock()
			close(ch)
			g.paired.Add(1)
			return
		}
		ch := make(chan struct{})
		g.waiting[id] = ch
		g.mu.Unlock()
		select {
		case <-ch:
		case <-time.After(3 * time.Millisecond):
			g.mu.Lock()
			if g.waiting[id] == ch {
				delete(g.waiting, id)
			}
			g.mu.Unlock()
		}
	}
}

type ConcRunner struct {
	W   *env.World
	Out io.Writer
	N   int
}

func has(xs []string, x string) bool {
	for _, y := range xs {
		if y == x {
			return true
		}
	}
	return false
}

func without(xs []string, drop ...string) []string {
	var out []string
	for _, x := range xs {
		if !has(drop, x) {
			out = append(out, x)
		}
	}
	return out
}

func sv(s string) *sdcpb.TypedValue {
	return &sdcpb.TypedValue{Value: &sdcpb.TypedValue_StringVal{StringVal: s}}
}

func concPath(id string, leaf ...string) *sdcpb.Path {
	p := &sdcpb.Path{Elem: []*sdcpb.PathElem{{Name: "conc"}}}
	if id != "" {
		p.Elem = append(p.Elem, &sdcpb.PathElem{Name: "node", Key: map[string]string{"id": id}})
	}
	for _, l := range leaf {
		p.Elem = append(p.Elem, &sdcpb.PathElem{Name: l})
	}
	return p
}

// updates of the scenario for the entries [from, to)
func (sc *ConcScenario) updates(from, to int) []*sdcpb.Update {
	var out []*sdcpb.Update
	add := func(p *sdcpb.Path, v *sdcpb.TypedValue) { out = append(out, &sdcpb.Update{Path: p, Value: v}) }
	id := func(i int) string { return fmt.Sprintf("n%03d", i) }
	for i := from; i < to; i++ {
		add(concPath(id(i), "id"), sv(id(i)))
		if has(sc.Feats, "peer") {
			peer := id((i + 1) % sc.N)
			if has(sc.Feats, "peerlast") {
				// everybody refers to the last entry (which a replace intent does not keep: it is loaded on demand by all validators)
				peer = id(sc.N - 1)
			}
			if has(sc.Defects, "dangling_peer") && i%7 == 3 {
				peer = "nobody"
			}
			add(concPath(id(i), "peer"), sv(peer))
		}
		if has(sc.Feats, "check") {
			add(concPath(id(i), "check"), sv("true"))
			if has(sc.Defects, "weight_low") && i%5 == 1 {
				add(concPath(id(i), "weight"), sv("2"))
			}
		}
		if has(sc.Defects, "range") && i%6 == 2 {
			add(concPath(id(i), "weight"), sv("11"))
		}
		if has(sc.Feats, "gcheck") {
			add(concPath(id(i), "gcheck"), sv("true"))
		}
		if has(sc.Feats, "rcheck") {
			add(concPath(id(i), "rcheck"), sv("true"))
			if has(sc.Defects, "role_b") && i%4 == 0 {
				add(concPath(id(i), "role"), sv("b"))
			}
		}
		if has(sc.Feats, "gname") {
			g := "g"
			if has(sc.Defects, "dangling_gname") && i%3 == 0 {
				g = "other"
			}
			add(concPath(id(i), "gname"), sv(g))
		}
		if has(sc.Feats, "opt") {
			add(concPath(id(i), "opt"), &sdcpb.TypedValue{Value: &sdcpb.TypedValue_EmptyVal{}})
			if !(has(sc.Defects, "missing_mandatory") && i%4 == 2) {
				add(concPath(id(i), "opt", "must-have"), sv("m"))
			}
		}
		if has(sc.Feats, "tag") {
			add(concPath(id(i), "tag"), sv("x"))
		}
		if has(sc.Feats, "tref") {
			// leafref through a key predicate on a sibling: /conc/node[id=current()/../peer]/tag
			v := "x"
			if has(sc.Defects, "dangling_tref") && i%5 == 2 {
				v = "nosuchtag"
			}
			add(concPath(id(i), "tref"), sv(v))
		}
		if has(sc.Feats, "tags") {
			tags := []*sdcpb.TypedValue{sv("t1"), sv("t2")}
			if has(sc.Defects, "too_many_tags") && i%5 == 0 {
				tags = append(tags, sv("t3"))
			}
			add(concPath(id(i), "tags"), &sdcpb.TypedValue{Value: &sdcpb.TypedValue_LeaflistVal{LeaflistVal: &sdcpb.ScalarArray{Element: tags}}})
		}
	}
	if from == 0 {
		if has(sc.Feats, "dcheck") {
			add(concPath("", "dcheck"), sv("true"))
		}
		if has(sc.Defects, "limit_low") {
			add(concPath("", "global", "limit"), sv("1"))
		}
	}
	return out
}

func (r *ConcRunner) emit(e *ConcEvent) error {
	if e.Errors == nil {
		e.Errors = []string{}
	}
	if e.Warnings == nil {
		e.Warnings = []string{}
	}
	if e.Feats == nil {
		e.Feats = []string{}
	}
	if e.Defects == nil {
		e.Defects = []string{}
	}
	b, err := json.Marshal(e)
	if err != nil {
		return err
	}
	if _, err := r.Out.Write(append(b, '\n')); err != nil {
		return err
	}
	if f, ok := r.Out.(interface{ Flush() error }); ok {
		return f.Flush()
	}
	return nil
}

func (r *ConcRunner) Run(sc *ConcScenario) error {
	ctx := context.Background()
	defer runtime.GOMAXPROCS(runtime.GOMAXPROCS(0))
	gate := &missGate{waiting: map[string]chan struct{}{}}
	verifhook.SetYieldFn(gate.yield)
	defer verifhook.SetYieldFn(nil)
	// two datastores on the same content: one validates sequentially, one concurrently
	mk := func(seq bool) (*env.DS, error) {
		ds, err := r.W.NewDS(env.DSOpts{Validation: &config.Validation{DisableConcurrency: seq}})
		if err != nil {
			return nil, err
		}
		if sc.Replace {
			base := &ConcScenario{N: sc.N, Feats: []string{"peer", "peerlast", "tags", "opt", "rcheck", "tag", "tref"}}
			req := &sdcpb.TransactionIntent{Intent: "A", Priority: 10, Update: base.updates(0, sc.N)}
			ti, err := ds.D.SdcpbTransactionIntentToInternalTI(ctx, req)
			if err != nil {
				return nil, err
			}
			resp, err := ds.D.TransactionSet(ctx, "base", []*types.TransactionIntent{ti}, nil, 30*time.Second, false)
			if err != nil {
				return nil, err
			}
			if hasErrors(resp) {
				return nil, fmt.Errorf("base transaction of the replace scenario is invalid: %v", resp.GetIntents())
			}
			if err := ds.D.TransactionConfirm(ctx, "base"); err != nil {
				return nil, err
			}
			if err := ds.SyncMirror(ctx); err != nil {
				return nil, err
			}
		} else if sc.Running && sc.N >= 2 {
			// half of the entries are on the device already (valid content only: no defects in the first half is not guaranteed,
			// so this transaction is applied with validation switched off by construction: it carries ids only)
			req := &sdcpb.TransactionIntent{Intent: "base", Priority: 20}
			for i := 0; i < sc.N/2; i++ {
				req.Update = append(req.Update, &sdcpb.Update{Path: concPath(fmt.Sprintf("n%03d", i), "id"), Value: sv(fmt.Sprintf("n%03d", i))})
			}
			ti, err := ds.D.SdcpbTransactionIntentToInternalTI(ctx, req)
			if err != nil {
				return nil, err
			}
			if _, err := ds.D.TransactionSet(ctx, "base", []*types.TransactionIntent{ti}, nil, 30*time.Second, false); err != nil {
				return nil, err
			}
			if err := ds.D.TransactionConfirm(ctx, "base"); err != nil {
				return nil, err
			}
			if err := ds.SyncMirror(ctx); err != nil {
				return nil, err
			}
		}
		return ds, nil
	}
	run := func(ds *env.DS, mode string, procs, rep int) error {
		ev := &ConcEvent{Ev: "verdict", B: sc.ID, N: sc.N, Feats: sc.Feats, Defects: sc.Defects, Replace: sc.Replace, Mode: mode, Procs: procs, Rep: rep}
		runtime.GOMAXPROCS(procs)
		cctx, cancel := context.WithTimeout(ctx, 60*time.Second)
		defer cancel()
		req := &sdcpb.TransactionIntent{Intent: "A", Priority: 10, Update: sc.updates(0, sc.N)}
		if sc.Replace {
			// keep three quarters of the entries (their peers partly exist on the device only) and make sure the
			// replace is refused, so that the state stays the same for every run
			kept := &ConcScenario{N: sc.N, Feats: append([]string{"tref"}, without(sc.Feats, "peer", "tag")...), Defects: sc.Defects}
			req = &sdcpb.TransactionIntent{Intent: "replace", Priority: 10, Update: kept.updates(0, sc.N*3/4)}
			req.Update = append(req.Update, &sdcpb.Update{Path: concPath("n000", "weight"), Value: sv("11")})
		}
		ti, err := ds.D.SdcpbTransactionIntentToInternalTI(cctx, req)
		if err != nil {
			ev.Ret = "error"
			ev.Errors = []string{"conversion: " + err.Error()}
			return r.emit(ev)
		}
		gate.paired.Store(0)
		gate.overwrites.Store(0)
		gate.on.Store(mode == "conc" && rep%2 == 1) // every second repetition runs under the adversarial gate
		var resp *sdcpb.TransactionSetResponse
		if sc.Replace {
			resp, err = ds.D.TransactionSet(cctx, fmt.Sprintf("%s-%s-%d-%d", sc.ID, mode, procs, rep), nil, ti, 30*time.Second, true)
		} else {
			resp, err = ds.D.TransactionSet(cctx, fmt.Sprintf("%s-%s-%d-%d", sc.ID, mode, procs, rep), []*types.TransactionIntent{ti}, nil, 30*time.Second, true)
		}
		gate.on.Store(false)
		ev.Paired, ev.Overwrites = int(gate.paired.Load()), int(gate.overwrites.Load())
		if err != nil && sc.Replace {
			// the verdict of a refused replace intent is the joined list of its validation errors
			ev.Ret = "refused"
			for _, line := range strings.Split(err.Error(), "\n") {
				if strings.TrimSpace(line) != "" {
					ev.Errors = append(ev.Errors, strings.TrimSpace(line))
				}
			}
			sort.Strings(ev.Errors)
			return r.emit(ev)
		}
		if err != nil {
			ev.Ret = "error"
			ev.Errors = []string{err.Error()}
			return r.emit(ev)
		}
		ev.Ret = "ok"
		for name, ri := range resp.GetIntents() {
			for _, e := range ri.GetErrors() {
				ev.Errors = append(ev.Errors, name+": "+e)
			}
			for _, w := range ri.GetWarnings() {
				ev.Warnings = append(ev.Warnings, name+": "+w)
			}
		}
		sort.Strings(ev.Errors)
		sort.Strings(ev.Warnings)
		ev.Updates = len(resp.GetUpdate())
		return r.emit(ev)
	}
	seq, err := mk(true)
	if err != nil {
		return err
	}
	defer seq.Stop(true)
	conc, err := mk(false)
	if err != nil {
		return err
	}
	defer conc.Stop(true)
	if err := run(seq, "seq", runtime.NumCPU(), 0); err != nil {
		return err
	}
	for _, p := range sc.Procs {
		for rep := 0; rep < sc.Reps; rep++ {
			if err := run(conc, "conc", p, rep); err != nil {
				return err
			}
		}
	}
	r.N++
	return nil
}
