// Package deco holds decorators around the datastore's collaborators (cache client,
// schema client): call counting, call logging and single-shot fault injection.
// They are passed as constructor arguments; no hook in data-server is needed.
package deco

import (
	"context"
	"fmt"
	"sync"
	"time"

	"github.com/sdcio/cache/proto/cachepb"
	"github.com/sdcio/data-server/pkg/cache"
	dschema "github.com/sdcio/data-server/pkg/schema"
	sdcpb "github.com/sdcio/sdc-protos/sdcpb"
	"google.golang.org/grpc"
)

type ModifyCall struct {
	Store cachepb.Store
	Owner string
	Prio  int32
	Dels  [][]string
	Upds  []*cache.Update
	Err   error
}

// Plan decides, per collaborator call, whether it fails. Kind is one of
// "cache.Read", "cache.ReadCh", "cache.GetKeys", "cache.Modify", "schema.GetSchema", "schema.ToPath".
type Plan struct {
	mu      sync.Mutex
	Count   map[string]int
	Seq     []string // global call order
	FailAt  int      // fail the FailAt-th call overall (1-based); 0 = none
	Failed  bool
	Enabled bool
	// Gate, when set, is called before every call and may block (schedulers)
	Gate func(kind string, n int)
}

func NewPlan() *Plan { return &Plan{Count: map[string]int{}} }

func (p *Plan) Reset(failAt int) {
	p.mu.Lock()
	defer p.mu.Unlock()
	p.Count = map[string]int{}
	p.Seq = nil
	p.FailAt = failAt
	p.Failed = false
	p.Enabled = true
}

func (p *Plan) Disable() {
	p.mu.Lock()
	defer p.mu.Unlock()
	p.Enabled = false
}

func (p *Plan) Total() int {
	p.mu.Lock()
	defer p.mu.Unlock()
	return len(p.Seq)
}

func (p *Plan) Calls() []string {
	p.mu.Lock()
	defer p.mu.Unlock()
	return append([]string(nil), p.Seq...)
}

func (p *Plan) hit(kind string) error {
	if p == nil {
		return nil
	}
	p.mu.Lock()
	if !p.Enabled {
		p.mu.Unlock()
		return nil
	}
	p.Count[kind]++
	p.Seq = append(p.Seq, kind)
	n := len(p.Seq)
	fail := p.FailAt == n && !p.Failed
	if fail {
		p.Failed = true
	}
	gate := p.Gate
	p.mu.Unlock()
	if gate != nil {
		gate(kind, n)
	}
	if fail {
		return fmt.Errorf("injected fault at call %d (%s)", n, kind)
	}
	return nil
}

type Cache struct {
	cache.Client
	P   *Plan
	mu  sync.Mutex
	Mod []*ModifyCall
}

func NewCache(c cache.Client, p *Plan) *Cache { return &Cache{Client: c, P: p} }

func (c *Cache) TakeModifies() []*ModifyCall {
	c.mu.Lock()
	defer c.mu.Unlock()
	m := c.Mod
	c.Mod = nil
	return m
}

func (c *Cache) Modify(ctx context.Context, name string, opts *cache.Opts, dels [][]string, upds []*cache.Update) error {
	mc := &ModifyCall{Store: opts.Store, Owner: opts.Owner, Prio: opts.Priority, Dels: dels, Upds: upds}
	c.mu.Lock()
	c.Mod = append(c.Mod, mc)
	c.mu.Unlock()
	if err := c.P.hit("cache.Modify"); err != nil {
		mc.Err = err
		return err
	}
	err := c.Client.Modify(ctx, name, opts, dels, upds)
	mc.Err = err
	return err
}

// Read has no error return in the client interface: a failing read is an empty read,
// which is what the remote client yields when the RPC fails.
func (c *Cache) Read(ctx context.Context, name string, opts *cache.Opts, paths [][]string, period time.Duration) []*cache.Update {
	if err := c.P.hit("cache.Read"); err != nil {
		return nil
	}
	return c.Client.Read(ctx, name, opts, paths, period)
}

func (c *Cache) ReadCh(ctx context.Context, name string, opts *cache.Opts, paths [][]string, period time.Duration) chan *cache.Update {
	if err := c.P.hit("cache.ReadCh"); err != nil {
		ch := make(chan *cache.Update)
		close(ch)
		return ch
	}
	return c.Client.ReadCh(ctx, name, opts, paths, period)
}

func (c *Cache) GetKeys(ctx context.Context, name string, store cachepb.Store) (chan *cache.Update, error) {
	if err := c.P.hit("cache.GetKeys"); err != nil {
		return nil, err
	}
	return c.Client.GetKeys(ctx, name, store)
}

type Schema struct {
	dschema.Client
	P *Plan
}

func NewSchema(c dschema.Client, p *Plan) *Schema { return &Schema{Client: c, P: p} }

func (s *Schema) GetSchema(ctx context.Context, in *sdcpb.GetSchemaRequest, opts ...grpc.CallOption) (*sdcpb.GetSchemaResponse, error) {
	if err := s.P.hit("schema.GetSchema"); err != nil {
		return nil, err
	}
	return s.Client.GetSchema(ctx, in, opts...)
}

func (s *Schema) ToPath(ctx context.Context, in *sdcpb.ToPathRequest, opts ...grpc.CallOption) (*sdcpb.ToPathResponse, error) {
	if err := s.P.hit("schema.ToPath"); err != nil {
		return nil, err
	}
	return s.Client.ToPath(ctx, in, opts...)
}
