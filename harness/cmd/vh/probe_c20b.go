package main

import (
	"context"
	"fmt"
	"runtime/debug"
	"time"

	"github.com/sdcio/data-server/pkg/datastore/types"
	sdcpb "github.com/sdcio/sdc-protos/sdcpb"

	"verifharness/env"
)

// probeC20b: request shapes reported to crash the unchanged tree (keyless list path next to a keyed one whose key
// value is the leaf name; absent Path with a JSON object value).
func probeC20b() {
	w, err := env.NewWorld("g0", "")
	if err != nil {
		die(err)
	}
	defer w.Close()
	ds, err := w.NewDS(env.DSOpts{})
	if err != nil {
		die(err)
	}
	ctx, cancel := context.WithTimeout(context.Background(), 20*time.Second)
	defer cancel()
	sv := func(s string) *sdcpb.TypedValue { return &sdcpb.TypedValue{Value: &sdcpb.TypedValue_StringVal{StringVal: s}} }
	try := func(what string, upds ...*sdcpb.Update) {
		defer func() {
			if r := recover(); r != nil {
				fmt.Println(what, "PANIC:", r)
				fmt.Println(string(debug.Stack()[:1500]))
			}
		}()
		ti, err := ds.D.SdcpbTransactionIntentToInternalTI(ctx, &sdcpb.TransactionIntent{Intent: "A", Priority: 10, Update: upds})
		if err != nil {
			fmt.Println(what, "conversion error:", err)
			return
		}
		resp, err := ds.D.TransactionSet(ctx, "t1", []*types.TransactionIntent{ti}, nil, 10*time.Second, true)
		fmt.Println(what, "resp:", resp.GetIntents(), "err:", err)
	}
	try("keyless+keyed",
		&sdcpb.Update{Path: &sdcpb.Path{Elem: []*sdcpb.PathElem{{Name: "item"}, {Name: "val"}}}, Value: sv("x")},
		&sdcpb.Update{Path: &sdcpb.Path{Elem: []*sdcpb.PathElem{{Name: "item", Key: map[string]string{"name": "val"}}, {Name: "mtu"}}}, Value: &sdcpb.TypedValue{Value: &sdcpb.TypedValue_UintVal{UintVal: 100}}})
	try("keyed+keyless",
		&sdcpb.Update{Path: &sdcpb.Path{Elem: []*sdcpb.PathElem{{Name: "item", Key: map[string]string{"name": "val"}}, {Name: "mtu"}}}, Value: &sdcpb.TypedValue{Value: &sdcpb.TypedValue_UintVal{UintVal: 100}}},
		&sdcpb.Update{Path: &sdcpb.Path{Elem: []*sdcpb.PathElem{{Name: "item"}, {Name: "val"}}}, Value: sv("x")})
	try("keyless alone",
		&sdcpb.Update{Path: &sdcpb.Path{Elem: []*sdcpb.PathElem{{Name: "item"}, {Name: "val"}}}, Value: sv("x")})
	try("nil path json object",
		&sdcpb.Update{Path: nil, Value: &sdcpb.TypedValue{Value: &sdcpb.TypedValue_JsonVal{JsonVal: []byte(`{"plain":{"a":"x"}}`)}}})
	try("empty path json object",
		&sdcpb.Update{Path: &sdcpb.Path{}, Value: &sdcpb.TypedValue{Value: &sdcpb.TypedValue_JsonVal{JsonVal: []byte(`{"plain":{"a":"x"}}`)}}})
}
