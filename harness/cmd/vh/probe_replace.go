package main

import (
	"context"
	"fmt"
	"time"

	"github.com/sdcio/data-server/pkg/datastore/types"
	sdcpb "github.com/sdcio/sdc-protos/sdcpb"

	"verifharness/env"
)

func probeReplace() {
	w, err := env.NewWorld("g0", "")
	if err != nil {
		die(err)
	}
	defer w.Close()
	ds, err := w.NewDS(env.DSOpts{})
	if err != nil {
		die(err)
	}
	ctx := context.Background()
	sv := func(s string) *sdcpb.TypedValue { return &sdcpb.TypedValue{Value: &sdcpb.TypedValue_StringVal{StringVal: s}} }
	p := func(names ...string) *sdcpb.Path {
		x := &sdcpb.Path{}
		for _, n := range names {
			x.Elem = append(x.Elem, &sdcpb.PathElem{Name: n})
		}
		return x
	}
	mk := func(name string, upds ...*sdcpb.Update) *types.TransactionIntent {
		ti, err := ds.D.SdcpbTransactionIntentToInternalTI(ctx, &sdcpb.TransactionIntent{Intent: name, Priority: 10, Update: upds})
		if err != nil {
			die(err)
		}
		return ti
	}
	show := func(what string) {
		fmt.Println("==", what, "device:", ds.DeviceContent())
		in, _ := ds.ReadIntended(ctx)
		fmt.Println("   intended:", in)
	}
	resp, err := ds.D.TransactionSet(ctx, "t1", []*types.TransactionIntent{mk("A", &sdcpb.Update{Path: p("plain", "a"), Value: sv("x")}, &sdcpb.Update{Path: p("plain", "n"), Value: sv("5")})}, nil, 30*time.Second, false)
	fmt.Println("t1", resp.GetIntents(), err)
	fmt.Println(ds.D.TransactionConfirm(ctx, "t1"))
	ds.SyncMirror(ctx)
	show("after t1")
	// replace, invalid (range)
	resp, err = ds.D.TransactionSet(ctx, "t2", nil, mk("replace", &sdcpb.Update{Path: p("plain", "ab"), Value: sv("y")}, &sdcpb.Update{Path: p("plain", "n"), Value: sv("11")}), 30*time.Second, true)
	fmt.Println("t2 replace invalid dry:", resp, err, "calls", ds.Dev.NumCalls())
	show("after t2")
	resp, err = ds.D.TransactionSet(ctx, "t2b", nil, mk("replace", &sdcpb.Update{Path: p("plain", "ab"), Value: sv("y")}, &sdcpb.Update{Path: p("plain", "n"), Value: sv("11")}), 30*time.Second, false)
	fmt.Println("t2b replace invalid NOT dry:", resp, err, "calls", ds.Dev.NumCalls())
	show("after t2b")
	fmt.Println(ds.D.TransactionCancel(ctx, "t2b"))
	resp, err = ds.D.TransactionSet(ctx, "t3", nil, mk("replace", &sdcpb.Update{Path: p("plain", "ab"), Value: sv("y")}), 30*time.Second, true)
	fmt.Println("t3 replace valid dry:", resp, err, "calls", ds.Dev.NumCalls())
	show("after t3")
	resp, err = ds.D.TransactionSet(ctx, "t4", nil, mk("replace", &sdcpb.Update{Path: p("plain", "ab"), Value: sv("z")}), 30*time.Second, false)
	fmt.Println("t4 replace valid:", resp, err, "calls", ds.Dev.NumCalls())
	show("after t4")
	fmt.Println(ds.D.TransactionCancel(ctx, "t4"))
	show("after cancel t4")
}
