// vh is the verification harness binary: it replays specification behaviours against the
// real sdcio/data-server code (built from /repo with -tags verif) and records traces.
package main

import (
	"bufio"
	"encoding/json"
	"flag"
	"fmt"
	"os"

	"verifharness/drive"
	"verifharness/env"
)

func die(err error) {
	fmt.Fprintln(os.Stderr, "vh:", err)
	os.Exit(2)
}

func main() {
	if len(os.Args) < 2 {
		die(fmt.Errorf("usage: vh <engine> [flags]"))
	}
	switch os.Args[1] {
	case "intents":
		intents(os.Args[2:])
	case "txn":
		txn(os.Args[2:])
	case "deviation":
		deviation(os.Args[2:])
	case "getdata":
		getdata(os.Args[2:])
	case "sync":
		syncEngine(os.Args[2:])
	case "streams":
		simple(os.Args[2:], func(w *env.World, out *bufio.Writer) func([]byte) error {
			r := &drive.StreamRunner{W: w, Out: out}
			return func(line []byte) error {
				var sc drive.StreamScript
				if err := json.Unmarshal(line, &sc); err != nil {
					return err
				}
				return r.Run(&sc)
			}
		})
	case "values":
		simple(os.Args[2:], func(w *env.World, out *bufio.Writer) func([]byte) error {
			r := &drive.ValRunner{W: w, Out: out}
			return func(line []byte) error {
				var b drive.ValBehaviour
				if err := json.Unmarshal(line, &b); err != nil {
					return err
				}
				return r.Run(&b)
			}
		})
	case "paths":
		simple(os.Args[2:], func(w *env.World, out *bufio.Writer) func([]byte) error {
			r := &drive.PathRunner{W: w, Out: out}
			return func(line []byte) error {
				var u drive.PathUniverse
				if err := json.Unmarshal(line, &u); err != nil {
					return err
				}
				return r.Run(&u)
			}
		})
	case "shapes":
		simple(os.Args[2:], func(w *env.World, out *bufio.Writer) func([]byte) error {
			r := &drive.ShapeRunner{W: w, Out: out}
			return func(line []byte) error {
				var b drive.ShapeBatch
				if err := json.Unmarshal(line, &b); err != nil {
					return err
				}
				return r.Run(&b)
			}
		})
	case "valconc":
		simple(os.Args[2:], func(w *env.World, out *bufio.Writer) func([]byte) error {
			r := &drive.ConcRunner{W: w, Out: out}
			return func(line []byte) error {
				var sc drive.ConcScenario
				if err := json.Unmarshal(line, &sc); err != nil {
					return err
				}
				return r.Run(&sc)
			}
		})
	case "probe-replace":
		probeReplace()
	case "probe-c20b":
		probeC20b()
	case "probe-dslife":
		probeDSLife()
	case "dslife":
		simple(os.Args[2:], func(w *env.World, out *bufio.Writer) func([]byte) error {
			r := &drive.DsLifeRunner{W: w, Out: out}
			return func(line []byte) error {
				var b drive.DsLifeBeh
				if err := json.Unmarshal(line, &b); err != nil {
					return err
				}
				return r.Run(&b)
			}
		})
	case "netconf":
		simple(os.Args[2:], func(w *env.World, out *bufio.Writer) func([]byte) error {
			r := &drive.NCRunner{W: w, Out: out}
			return func(line []byte) error {
				var sc drive.NCScript
				if err := json.Unmarshal(line, &sc); err != nil {
					return err
				}
				return r.Run(&sc)
			}
		})
	default:
		die(fmt.Errorf("unknown engine %q", os.Args[1]))
	}
}

func deviation(args []string) {
	fs := flag.NewFlagSet("deviation", flag.ExitOnError)
	in := fs.String("in", "", "states file (ndjson)")
	out := fs.String("out", "", "trace file (ndjson)")
	fs.Parse(args)
	w, err := env.NewWorld("g0", "")
	if err != nil {
		die(err)
	}
	defer w.Close()
	f, err := os.Open(*in)
	if err != nil {
		die(err)
	}
	defer f.Close()
	of, err := os.Create(*out)
	if err != nil {
		die(err)
	}
	bw := bufio.NewWriterSize(of, 1<<20)
	r := &drive.DevRunner{W: w, Out: bw}
	sc := bufio.NewScanner(f)
	sc.Buffer(make([]byte, 1<<20), 1<<26)
	for sc.Scan() {
		if len(sc.Bytes()) == 0 {
			continue
		}
		var st drive.DevState
		if err := json.Unmarshal(sc.Bytes(), &st); err != nil {
			die(err)
		}
		if err := r.Run(&st); err != nil {
			bw.Flush()
			die(err)
		}
	}
	bw.Flush()
	of.Close()
	fmt.Printf("states=%d\n", r.N)
}

func getdata(args []string) {
	fs := flag.NewFlagSet("getdata", flag.ExitOnError)
	in := fs.String("in", "", "states file (ndjson)")
	out := fs.String("out", "", "trace file (ndjson)")
	fs.Parse(args)
	w, err := env.NewWorld("g0", "")
	if err != nil {
		die(err)
	}
	defer w.Close()
	f, err := os.Open(*in)
	if err != nil {
		die(err)
	}
	defer f.Close()
	of, err := os.Create(*out)
	if err != nil {
		die(err)
	}
	bw := bufio.NewWriterSize(of, 1<<20)
	r := &drive.GetRunner{W: w, Out: bw}
	sc := bufio.NewScanner(f)
	sc.Buffer(make([]byte, 1<<20), 1<<26)
	for sc.Scan() {
		if len(sc.Bytes()) == 0 {
			continue
		}
		var st drive.GetState
		if err := json.Unmarshal(sc.Bytes(), &st); err != nil {
			die(err)
		}
		if err := r.Run(&st); err != nil {
			bw.Flush()
			die(err)
		}
	}
	bw.Flush()
	of.Close()
	fmt.Printf("requests=%d\n", r.N)
}

func syncEngine(args []string) {
	fs := flag.NewFlagSet("sync", flag.ExitOnError)
	in := fs.String("in", "", "scripts file (ndjson)")
	out := fs.String("out", "", "trace file (ndjson)")
	fs.Parse(args)
	// storeSyncMsg prints every update to stdout
	realStdout := os.Stdout
	if devnull, err := os.OpenFile(os.DevNull, os.O_WRONLY, 0); err == nil {
		os.Stdout = devnull
	}
	w, err := env.NewWorld("g0", "")
	if err != nil {
		die(err)
	}
	defer w.Close()
	f, err := os.Open(*in)
	if err != nil {
		die(err)
	}
	defer f.Close()
	of, err := os.Create(*out)
	if err != nil {
		die(err)
	}
	bw := bufio.NewWriterSize(of, 1<<20)
	r := &drive.SyncRunner{W: w, Out: bw}
	sc := bufio.NewScanner(f)
	sc.Buffer(make([]byte, 1<<20), 1<<26)
	for sc.Scan() {
		if len(sc.Bytes()) == 0 {
			continue
		}
		var st drive.SyncScript
		if err := json.Unmarshal(sc.Bytes(), &st); err != nil {
			die(err)
		}
		if err := r.Run(&st); err != nil {
			bw.Flush()
			die(err)
		}
	}
	bw.Flush()
	of.Close()
	fmt.Fprintf(realStdout, "scripts=%d\n", r.N)
}

// simple: read ndjson inputs, run each through f, write the ndjson trace
func simple(args []string, mk func(w *env.World, out *bufio.Writer) func([]byte) error) {
	fs := flag.NewFlagSet("engine", flag.ExitOnError)
	in := fs.String("in", "", "input file (ndjson)")
	out := fs.String("out", "", "trace file (ndjson)")
	fs.Parse(args)
	w, err := env.NewWorld("g0", "")
	if err != nil {
		die(err)
	}
	defer w.Close()
	f, err := os.Open(*in)
	if err != nil {
		die(err)
	}
	defer f.Close()
	of, err := os.Create(*out)
	if err != nil {
		die(err)
	}
	bw := bufio.NewWriterSize(of, 1<<20)
	run := mk(w, bw)
	sc := bufio.NewScanner(f)
	sc.Buffer(make([]byte, 1<<20), 1<<26)
	n := 0
	for sc.Scan() {
		if len(sc.Bytes()) == 0 {
			continue
		}
		if err := run(sc.Bytes()); err != nil {
			bw.Flush()
			die(err)
		}
		n++
	}
	bw.Flush()
	of.Close()
	fmt.Printf("inputs=%d\n", n)
}

func txn(args []string) {
	fs := flag.NewFlagSet("txn", flag.ExitOnError)
	in := fs.String("in", "", "schedules file (ndjson)")
	out := fs.String("out", "", "trace file (ndjson, appended)")
	skip := fs.Int("skip", 0, "skip the first n behaviours (restart after a crash)")
	fs.Parse(args)
	w, err := env.NewWorld("g0", "")
	if err != nil {
		die(err)
	}
	defer w.Close()
	f, err := os.Open(*in)
	if err != nil {
		die(err)
	}
	defer f.Close()
	of, err := os.OpenFile(*out, os.O_APPEND|os.O_CREATE|os.O_WRONLY, 0o644)
	if err != nil {
		die(err)
	}
	defer of.Close()
	r := &drive.TxnRunner{W: w, Out: of}
	sc := bufio.NewScanner(f)
	sc.Buffer(make([]byte, 1<<20), 1<<26)
	n := 0
	for sc.Scan() {
		if len(sc.Bytes()) == 0 {
			continue
		}
		n++
		if n <= *skip {
			continue
		}
		var b drive.TxnBehaviour
		if err := json.Unmarshal(sc.Bytes(), &b); err != nil {
			die(err)
		}
		if err := r.Run(&b); err != nil {
			die(err)
		}
	}
	fmt.Printf("schedules=%d\n", r.N)
}

func intents(args []string) {
	fs := flag.NewFlagSet("intents", flag.ExitOnError)
	in := fs.String("in", "", "behaviours file (ndjson, one behaviour per line)")
	out := fs.String("out", "", "trace file (ndjson)")
	gamma := fs.String("gamma", "g0", "default gamma variant")
	noSync := fs.Bool("no-env-sync", false, "do not play the device's sync after each step")
	enc := fs.Bool("encodings", false, "render every change in all southbound encodings")
	fs.Parse(args)
	w, err := env.NewWorld(*gamma, "")
	if err != nil {
		die(err)
	}
	defer w.Close()
	f, err := os.Open(*in)
	if err != nil {
		die(err)
	}
	defer f.Close()
	of, err := os.Create(*out)
	if err != nil {
		die(err)
	}
	bw := bufio.NewWriterSize(of, 1<<20)
	r := &drive.Runner{W: w, Out: bw, NoEnvSync: *noSync, Encodings: *enc}
	sc := bufio.NewScanner(f)
	sc.Buffer(make([]byte, 1<<20), 1<<26)
	n := 0
	for sc.Scan() {
		if len(sc.Bytes()) == 0 {
			continue
		}
		var b drive.Behaviour
		if err := json.Unmarshal(sc.Bytes(), &b); err != nil {
			die(fmt.Errorf("behaviour %d: %w", n+1, err))
		}
		if b.Gamma == "" {
			b.Gamma = *gamma
		}
		if err := r.Run(&b); err != nil {
			bw.Flush()
			die(err)
		}
		n++
	}
	bw.Flush()
	of.Close()
	fmt.Printf("behaviours=%d steps=%d\n", n, r.NSteps)
}
