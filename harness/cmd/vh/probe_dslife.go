package main

import (
	"context"
	"fmt"
	"time"

	"github.com/sdcio/data-server/pkg/datastore/types"
	sdcpb "github.com/sdcio/sdc-protos/sdcpb"

	"verifharness/dev"
	"verifharness/env"
)

// probeDSLife: what an armed rollback timer does after its datastore was deleted (Server.DeleteDataStore = Stop +
// DeleteCache) and a datastore of the same name was created again.
func probeDSLife() {
	w, err := env.NewWorld("g0", "")
	if err != nil {
		die(err)
	}
	defer w.Close()
	device := dev.New()
	ds, err := w.NewDS(env.DSOpts{Name: "life", Device: device})
	if err != nil {
		die(err)
	}
	ctx := context.Background()
	sv := func(s string) *sdcpb.TypedValue { return &sdcpb.TypedValue{Value: &sdcpb.TypedValue_StringVal{StringVal: s}} }
	p := func(names ...string) *sdcpb.Path {
		x := &sdcpb.Path{}
		for _, n := range names {
			x.Elem = append(x.Elem, &sdcpb.PathElem{Name: n})
		}
		return x
	}
	mk := func(d *env.DS, name string, upds ...*sdcpb.Update) *types.TransactionIntent {
		ti, err := d.D.SdcpbTransactionIntentToInternalTI(ctx, &sdcpb.TransactionIntent{Intent: name, Priority: 10, Update: upds})
		if err != nil {
			die(err)
		}
		return ti
	}
	show := func(d *env.DS, what string) {
		fmt.Println("==", what, "device:", d.DeviceContent(), "calls", d.Dev.NumCalls())
		in, _ := d.ReadIntended(ctx)
		fmt.Println("   intended:", in)
	}
	resp, err := ds.D.TransactionSet(ctx, "t0", []*types.TransactionIntent{mk(ds, "A", &sdcpb.Update{Path: p("plain", "a"), Value: sv("old")})}, nil, 30*time.Second, false)
	fmt.Println("t0", resp.GetIntents(), err, ds.D.TransactionConfirm(ctx, "t0"))
	ds.SyncMirror(ctx)
	resp, err = ds.D.TransactionSet(ctx, "t1", []*types.TransactionIntent{mk(ds, "A", &sdcpb.Update{Path: p("plain", "a"), Value: sv("new")})}, nil, 400*time.Millisecond, false)
	fmt.Println("t1 (unconfirmed, 400ms)", resp.GetIntents(), err)
	show(ds, "after t1")
	ds.Stop(true) // Server.DeleteDataStore: ds.Stop(), ds.DeleteCache()
	fmt.Println("deleted datastore")
	ds2, err := w.NewDS(env.DSOpts{Name: "life", Device: device})
	if err != nil {
		die(err)
	}
	ds2.SyncMirror(ctx)
	resp, err = ds2.D.TransactionSet(ctx, "u1", []*types.TransactionIntent{mk(ds2, "B", &sdcpb.Update{Path: p("plain", "ab"), Value: sv("b")})}, nil, 30*time.Second, false)
	fmt.Println("u1 on the re-created datastore", resp.GetIntents(), err, ds2.D.TransactionConfirm(ctx, "u1"))
	show(ds2, "re-created, before the old timer fires")
	time.Sleep(900 * time.Millisecond)
	show(ds2, "re-created, after the old timer fired")
}
