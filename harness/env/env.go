// Package env builds the real system under test in-process: schema memstore from the
// verification YANG, badger backed local cache, real Datastore, harness device as SBI.
package env

import (
	"context"
	"fmt"
	"io"
	"os"
	"path/filepath"
	"sort"
	"sync"
	"sync/atomic"
	"time"

	cconfig "github.com/sdcio/cache/pkg/config"
	"github.com/sdcio/cache/proto/cachepb"
	"github.com/sdcio/data-server/pkg/cache"
	"github.com/sdcio/data-server/pkg/config"
	"github.com/sdcio/data-server/pkg/datastore"
	schemaClient "github.com/sdcio/data-server/pkg/datastore/clients/schema"
	"github.com/sdcio/data-server/pkg/datastore/target"
	dschema "github.com/sdcio/data-server/pkg/schema"
	sconfig "github.com/sdcio/schema-server/pkg/config"
	sschema "github.com/sdcio/schema-server/pkg/schema"
	"github.com/sdcio/schema-server/pkg/store"
	"github.com/sdcio/schema-server/pkg/store/memstore"
	sdcpb "github.com/sdcio/sdc-protos/sdcpb"
	log "github.com/sirupsen/logrus"

	"verifharness/dev"
	"verifharness/uni"
)

const (
	SchemaName    = "vf"
	SchemaVendor  = "verif"
	SchemaVersion = "1"
)

type World struct {
	VerifDir string
	U        *uni.Universe
	Store    store.Store
	Schema   dschema.Client
	Cache    cache.Client
	CacheDir string
	ownCache bool
}

var devMu sync.Mutex
var devByName = map[string]*dev.Device{}
var refuseAfterClose = map[string]bool{}

// closableConn is one connection of a datastore incarnation to the harness device that, like the gNMI and NETCONF
// targets, refuses Set once it was closed (the bare harness device accepts calls for ever).
type closableConn struct {
	*dev.Device
	closed atomic.Bool
}

func (c *closableConn) Close() error { c.closed.Store(true); return nil }
func (c *closableConn) Set(ctx context.Context, src target.TargetSource) (*sdcpb.SetDataResponse, error) {
	if c.closed.Load() {
		return nil, fmt.Errorf("target connection is closed")
	}
	return c.Device.Set(ctx, src)
}
var factoryOnce sync.Once
var dsCounter atomic.Int64

func init() {
	log.SetOutput(io.Discard)
	log.SetLevel(log.PanicLevel)
}

func VerifDir() string {
	if d := os.Getenv("VERIF_DIR"); d != "" {
		return d
	}
	return "/verif"
}

// NewWorld loads universe + schema and opens a cache in dir (created when empty string).
func NewWorld(gamma, cacheDir string) (*World, error) {
	vd := VerifDir()
	u, err := uni.Load(filepath.Join(vd, "schema", "universe.json"), gamma)
	if err != nil {
		return nil, err
	}
	w := &World{VerifDir: vd, U: u}
	ms := memstore.New()
	sc, err := sschema.NewSchema(&sconfig.SchemaConfig{
		Name: SchemaName, Vendor: SchemaVendor, Version: SchemaVersion,
		Files: []string{filepath.Join(vd, "schema", "yang")},
	})
	if err != nil {
		return nil, fmt.Errorf("schema: %w", err)
	}
	if err := ms.AddSchema(sc); err != nil {
		return nil, err
	}
	w.Store = ms
	w.Schema = dschema.NewLocalClient(ms)
	if cacheDir == "" {
		cacheDir, err = os.MkdirTemp("", "verif-cache-")
		if err != nil {
			return nil, err
		}
		w.ownCache = true
	}
	w.CacheDir = cacheDir
	w.Cache, err = cache.NewLocalCache(&cconfig.CacheConfig{StoreType: "badgerdb", Dir: cacheDir, MaxCaches: 100})
	if err != nil {
		return nil, fmt.Errorf("cache: %w", err)
	}
	factoryOnce.Do(func() {
		target.VerifFactory = func(ctx context.Context, name string, cfg *config.SBI, sc schemaClient.SchemaClientBound) (target.Target, error) {
			devMu.Lock()
			defer devMu.Unlock()
			d, ok := devByName[name]
			if !ok {
				return nil, fmt.Errorf("no harness device registered for %s", name)
			}
			if refuseAfterClose[name] {
				return &closableConn{Device: d}, nil
			}
			return d, nil
		}
	})
	return w, nil
}

func (w *World) Close() {
	if w.Cache != nil {
		w.Cache.Close()
	}
	if w.ownCache {
		os.RemoveAll(w.CacheDir)
	}
}

func (w *World) SchemaRef() *config.SchemaConfig {
	return &config.SchemaConfig{Name: SchemaName, Vendor: SchemaVendor, Version: SchemaVersion}
}

type DS struct {
	W      *World
	Name   string
	D      *datastore.Datastore
	Dev    *dev.Device
	Cache  cache.Client
	cancel context.CancelFunc
}

type DSOpts struct {
	Name       string // reuse an existing cache instance (restart); empty = fresh
	Validation *config.Validation
	Sync       *config.Sync
	Cache      cache.Client   // decorated cache client, default w.Cache
	Schema     dschema.Client // decorated schema client, default w.Schema
	Device     *dev.Device
	// RefuseAfterClose: the target connection refuses Set after Datastore.Stop closed it
	RefuseAfterClose bool
}

// NewDS creates a real Datastore on a (fresh) cache instance with the harness device as its SBI.
func (w *World) NewDS(o DSOpts) (*DS, error) {
	name := o.Name
	if name == "" {
		name = fmt.Sprintf("ds%d", dsCounter.Add(1))
	}
	d := o.Device
	if d == nil {
		d = dev.New()
	}
	devMu.Lock()
	devByName[name] = d
	refuseAfterClose[name] = o.RefuseAfterClose
	devMu.Unlock()
	cc := o.Cache
	if cc == nil {
		cc = w.Cache
	}
	sc := o.Schema
	if sc == nil {
		sc = w.Schema
	}
	val := o.Validation
	if val == nil {
		val = &config.Validation{}
	}
	ctx, cancel := context.WithCancel(context.Background())
	cfg := &config.DatastoreConfig{
		Name:       name,
		Schema:     w.SchemaRef(),
		SBI:        &config.SBI{Type: "verif", ConnectRetry: 50 * time.Millisecond},
		Validation: val,
		Sync:       o.Sync,
	}
	ds := datastore.New(ctx, cfg, sc, cc)
	// wait for the SBI goroutine
	deadline := time.Now().Add(5 * time.Second)
	for !ds.ConnectionState().IsConnected() {
		if time.Now().After(deadline) {
			cancel()
			return nil, fmt.Errorf("SBI did not connect")
		}
		time.Sleep(2 * time.Millisecond)
	}
	return &DS{W: w, Name: name, D: ds, Dev: d, Cache: cc, cancel: cancel}, nil
}

// Stop stops the datastore goroutines; the cache instance is kept unless drop.
func (s *DS) Stop(drop bool) {
	s.D.Stop()
	s.cancel()
	if drop {
		s.W.Cache.Delete(context.Background(), s.Name)
		devMu.Lock()
		delete(devByName, s.Name)
		devMu.Unlock()
	}
}

// ---- observations ----

type IntendedEntry struct {
	Owner string
	Prio  int32
	Leaf  string
	Datum string
}

// ReadIntended reads the whole intended store back: every (owner, priority, path) key and its value(s).
func (s *DS) ReadIntended(ctx context.Context) ([]IntendedEntry, error) {
	ch, err := s.W.Cache.GetKeys(ctx, s.Name, cachepb.Store_INTENDED)
	if err != nil {
		return nil, err
	}
	type key struct {
		o string
		p int32
		k string
	}
	seen := map[key]bool{}
	var out []IntendedEntry
	for k := range ch {
		kk := key{k.Owner(), k.Priority(), fmt.Sprint(k.GetPath())}
		if seen[kk] {
			continue
		}
		seen[kk] = true
		upds := s.W.Cache.Read(ctx, s.Name, &cache.Opts{Store: cachepb.Store_INTENDED, Priority: k.Priority(), Owner: k.Owner()}, [][]string{k.GetPath()}, 0)
		id := s.W.U.AlphaCachePath(k.GetPath())
		if len(upds) == 0 {
			out = append(out, IntendedEntry{k.Owner(), k.Priority(), id, "unreadable"})
		}
		for _, u := range upds {
			// the read is a prefix read; keep only exact path matches
			if fmt.Sprint(u.GetPath()) != fmt.Sprint(k.GetPath()) {
				continue
			}
			tv, err := u.Value()
			d := "undecodable"
			if err == nil {
				d = s.W.U.Datum(s.W.U.Leaf(id), tv)
			}
			out = append(out, IntendedEntry{u.Owner(), u.Priority(), id, d})
		}
	}
	sort.Slice(out, func(i, j int) bool {
		a, b := out[i], out[j]
		if a.Owner != b.Owner {
			return a.Owner < b.Owner
		}
		if a.Prio != b.Prio {
			return a.Prio < b.Prio
		}
		if a.Leaf != b.Leaf {
			return a.Leaf < b.Leaf
		}
		return a.Datum < b.Datum
	})
	return out, nil
}

type LeafVal struct {
	Leaf  string
	Datum string
}

func sortLV(out []LeafVal) {
	sort.Slice(out, func(i, j int) bool {
		if out[i].Leaf != out[j].Leaf {
			return out[i].Leaf < out[j].Leaf
		}
		return out[i].Datum < out[j].Datum
	})
}

// ReadStore reads the config (running mirror) or state store.
func (s *DS) ReadStore(ctx context.Context, st cachepb.Store) []LeafVal {
	upds := s.W.Cache.Read(ctx, s.Name, &cache.Opts{Store: st}, [][]string{{}}, 0)
	var out []LeafVal
	for _, u := range upds {
		id := s.W.U.AlphaCachePath(u.GetPath())
		tv, err := u.Value()
		d := "undecodable"
		if err == nil {
			d = s.W.U.Datum(s.W.U.Leaf(id), tv)
		}
		out = append(out, LeafVal{id, d})
	}
	sortLV(out)
	return out
}

// DeviceContent abstracts the device content.
func (s *DS) DeviceContent() []LeafVal {
	var out []LeafVal
	for _, e := range s.Dev.Content() {
		id := s.W.U.AlphaPath(e.Path)
		out = append(out, LeafVal{id, s.W.U.Datum(s.W.U.Leaf(id), e.Val)})
	}
	sortLV(out)
	return out
}

// SyncMirror plays the device's own sync: overwrite Store_CONFIG with the device content.
func (s *DS) SyncMirror(ctx context.Context) error {
	cur := s.W.Cache.Read(ctx, s.Name, &cache.Opts{Store: cachepb.Store_CONFIG}, [][]string{{}}, 0)
	var dels [][]string
	for _, u := range cur {
		dels = append(dels, u.GetPath())
	}
	var upds []*cache.Update
	for _, e := range s.Dev.Content() {
		cu, err := s.W.Cache.NewUpdate(&sdcpb.Update{Path: e.Path, Value: e.Val})
		if err != nil {
			return err
		}
		upds = append(upds, cu)
	}
	if len(dels) > 0 {
		if err := s.W.Cache.Modify(ctx, s.Name, &cache.Opts{Store: cachepb.Store_CONFIG}, dels, nil); err != nil {
			return err
		}
	}
	if len(upds) > 0 {
		return s.W.Cache.Modify(ctx, s.Name, &cache.Opts{Store: cachepb.Store_CONFIG}, nil, upds)
	}
	return nil
}
