package uni

import (
	"fmt"
	"sort"
	"strings"

	"github.com/beevik/etree"
	sdcpb "github.com/sdcio/sdc-protos/sdcpb"
)

// XMLChange is alpha for NETCONF edit-config documents: what the document denotes plus structural facts.
type XMLChange struct {
	Upd    [][2]string `json:"upd"`
	Del    []string    `json:"del"`    // leaves covered by deleted / removed elements
	DelRaw []string    `json:"delraw"` // canonical paths of the deleted elements
	// structural facts
	Empty         bool     `json:"empty"`         // the document serialises to the empty string
	AllNamed      bool     `json:"allnamed"`      // every element has a name
	NsOK          bool     `json:"nsok"`          // every element resolves (XML scoping) to the namespace of its schema node
	KeysFirst     bool     `json:"keysfirst"`     // every list entry carries all its keys first, in key-statement order
	Ops           []string `json:"ops"`           // operation attribute values used (with prefix info: "nc:delete" / "delete")
	ReplaceOn     []string `json:"replaceon"`     // elements carrying operation="replace"
	ReplaceLeaves []string `json:"replaceleaves"` // leaves at or below an element carrying operation="replace"
	UnknownElems  []string `json:"unknownelems"`  // elements that are not nodes of the universe's schema part
}

const (
	nsVF  = "urn:verif/vf"
	nsVFX = "urn:verif/vfx"
	nsNC  = "urn:ietf:params:xml:ns:netconf:base:1.0"
)

// expectedNS: namespace of the schema node at the given element names
func expectedNS(names []string) string {
	j := strings.Join(names, "/")
	switch {
	case j == "sys/ext", strings.HasPrefix(j, "sys/xc"), j == "item/xval", j == "sys/xtags":
		return nsVFX
	}
	return nsVF
}

type xmlWalk struct {
	u       *Universe
	honorNS bool
	out     *XMLChange
	seenOps map[string]bool
}

func (u *Universe) DecodeXML(doc *etree.Document, honorNS bool) (*XMLChange, error) {
	out := &XMLChange{AllNamed: true, NsOK: true, KeysFirst: true, Upd: [][2]string{}, Del: []string{}, DelRaw: []string{}, Ops: []string{}, ReplaceOn: []string{}, ReplaceLeaves: []string{}, UnknownElems: []string{}}
	s, err := doc.WriteToString()
	if err != nil {
		return nil, err
	}
	out.Empty = len(strings.TrimSpace(s)) == 0
	w := &xmlWalk{u: u, honorNS: honorNS, out: out, seenOps: map[string]bool{}}
	for _, e := range doc.ChildElements() {
		if err := w.elem(e, &sdcpb.Path{}, nil, "", map[string]string{}); err != nil {
			return nil, err
		}
	}
	for op := range w.seenOps {
		out.Ops = append(out.Ops, op)
	}
	sort.Strings(out.Ops)
	sort.Slice(out.Upd, func(i, j int) bool {
		return out.Upd[i][0] < out.Upd[j][0] || (out.Upd[i][0] == out.Upd[j][0] && out.Upd[i][1] < out.Upd[j][1])
	})
	seen := map[string]bool{}
	var dels []string
	for _, d := range out.Del {
		if !seen[d] {
			seen[d] = true
			dels = append(dels, d)
		}
	}
	sort.Strings(dels)
	out.Del = dels
	if out.Del == nil {
		out.Del = []string{}
	}
	sort.Strings(out.DelRaw)
	return out, nil
}

func namesOf(p *sdcpb.Path) []string {
	n := make([]string, 0, len(p.GetElem()))
	for _, e := range p.GetElem() {
		n = append(n, e.GetName())
	}
	return n
}

// operation returns the operation attribute of the element ("" if none) and whether it was namespace qualified correctly
func (w *xmlWalk) operation(e *etree.Element, prefixes map[string]string) string {
	for _, a := range e.Attr {
		if a.Key != "operation" {
			continue
		}
		if a.Space != "" {
			if prefixes[a.Space] != nsNC {
				w.out.NsOK = false
			}
			w.seenOps[a.Space+":"+a.Value] = true
		} else {
			w.seenOps[a.Value] = true
		}
		return a.Value
	}
	return ""
}

func (w *xmlWalk) elem(e *etree.Element, parent *sdcpb.Path, parentNames []string, defNS string, prefixes map[string]string) error {
	// namespace scoping
	pf := map[string]string{}
	for k, v := range prefixes {
		pf[k] = v
	}
	for _, a := range e.Attr {
		if a.Space == "" && a.Key == "xmlns" {
			defNS = a.Value
		}
		if a.Space == "xmlns" {
			pf[a.Key] = a.Value
		}
	}
	if e.Tag == "" {
		w.out.AllNamed = false
	}
	names := append(append([]string{}, parentNames...), e.Tag)
	if w.honorNS && e.Tag != "" && defNS != expectedNS(names) {
		w.out.NsOK = false
	}
	p := clonePath(parent)
	pe := &sdcpb.PathElem{Name: e.Tag}
	p.Elem = append(p.Elem, pe)
	keys := w.u.listKeyNames(names)
	children := e.ChildElements()
	if keys != nil {
		pe.Key = map[string]string{}
		for _, k := range keys {
			for _, c := range children {
				if c.Tag == k {
					pe.Key[k] = c.Text()
				}
			}
		}
		// keys first, in key-statement order (as far as they are present all of them must be)
		for i, k := range keys {
			if i >= len(children) || children[i].Tag != k {
				w.out.KeysFirst = false
			}
		}
	}
	op := w.operation(e, pf)
	switch op {
	case "delete", "remove":
		w.out.DelRaw = append(w.out.DelRaw, CanonPath(p))
		w.out.Del = append(w.out.Del, w.u.LeavesAtOrBelow(p)...)
		return nil
	case "replace":
		w.out.ReplaceOn = append(w.out.ReplaceOn, CanonPath(p))
		w.out.ReplaceLeaves = append(w.out.ReplaceLeaves, w.u.LeavesAtOrBelow(p)...)
	}
	if len(children) == 0 {
		// a leaf, an empty leaf or a presence container
		id := w.u.AlphaPath(p)
		l := w.u.Leaf(id)
		switch {
		case l == nil:
			w.out.UnknownElems = append(w.out.UnknownElems, CanonPath(p))
			w.out.Upd = append(w.out.Upd, [2]string{id, "s:" + e.Text()})
		case l.Kind == "presence" || baseType(l.Type) == "empty":
			w.out.Upd = append(w.out.Upd, [2]string{id, "e:"})
		default:
			w.u.emitLeaf(p, e.Text(), &w.out.Upd)
		}
		return nil
	}
	// a presence container element that carries no update below it (only deletes) still creates the container
	// (RFC 6241 merge creates every element it names): it denotes the write of the container itself
	if l := w.u.Leaf(w.u.AlphaPath(p)); l != nil && l.Kind == "presence" {
		nUpd := len(w.out.Upd)
		defer func() {
			if len(w.out.Upd) == nUpd {
				w.out.Upd = append(w.out.Upd, [2]string{l.ID, "e:"})
			}
		}()
	}
	// group leaf-list children
	ll := map[string][]string{}
	for _, c := range children {
		cn := append(append([]string{}, names...), c.Tag)
		cp := clonePath(p)
		cp.Elem = append(cp.Elem, &sdcpb.PathElem{Name: c.Tag})
		if l := w.u.Leaf(w.u.AlphaPath(cp)); l != nil && l.Kind == "leaflist" && len(c.ChildElements()) == 0 {
			cpf := map[string]string{}
			for k, v := range pf {
				cpf[k] = v
			}
			cdef := defNS
			for _, a := range c.Attr {
				if a.Space == "xmlns" {
					cpf[a.Key] = a.Value
				}
				if a.Space == "" && a.Key == "xmlns" {
					cdef = a.Value
				}
			}
			// every element of a leaf-list resolves to the namespace of the leaf-list (a declaration on one
			// sibling does not reach the next)
			if w.honorNS && cdef != expectedNS(cn) {
				w.out.NsOK = false
			}
			if cop := w.operation(c, cpf); cop == "delete" || cop == "remove" {
				w.out.DelRaw = append(w.out.DelRaw, CanonPath(cp))
				w.out.Del = append(w.out.Del, l.ID)
				continue
			}
			ll[l.ID] = append(ll[l.ID], LexDatum(baseType(l.Type), c.Text()))
			continue
		}
		if err := w.elem(c, p, names, defNS, pf); err != nil {
			return err
		}
	}
	for id, parts := range ll {
		w.out.Upd = append(w.out.Upd, [2]string{id, "ll:" + strings.Join(parts, "|")})
	}
	return nil
}

var _ = fmt.Sprintf
