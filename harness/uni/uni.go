// Package uni holds the model universe shared with the TLA+ specification
// (schema/universe.json): abstract leaf ids, their concrete instance paths (gamma)
// and the abstraction of observed paths and values back to ids and datums (alpha).
package uni

import (
	"encoding/base64"
	"encoding/json"
	"fmt"
	"os"
	"sort"
	"strconv"
	"strings"

	sdcpb "github.com/sdcio/sdc-protos/sdcpb"
)

type KV struct{ K, V string }

type Elem struct {
	Name string
	Keys []KV // declared order
}

func (e *Elem) UnmarshalJSON(b []byte) error {
	var raw []json.RawMessage
	if err := json.Unmarshal(b, &raw); err != nil {
		return err
	}
	if len(raw) != 2 {
		return fmt.Errorf("bad elem %s", b)
	}
	if err := json.Unmarshal(raw[0], &e.Name); err != nil {
		return err
	}
	var kvs [][]string
	if err := json.Unmarshal(raw[1], &kvs); err != nil {
		return err
	}
	for _, kv := range kvs {
		e.Keys = append(e.Keys, KV{kv[0], kv[1]})
	}
	return nil
}

type Leaf struct {
	ID      string     `json:"id"`
	Elems   []Elem     `json:"elems"`
	Type    string     `json:"type"`
	Vals    []string   `json:"vals"`
	Entry   *string    `json:"entry"`
	Key     *string    `json:"key"`
	Choice  *string    `json:"choice"`
	Case    *string    `json:"case"`
	Default *string    `json:"default"`
	Kind    string     `json:"kind"`
	State   bool       `json:"state"`
	Fam     []string   `json:"fam"`
	Bad     [][]string `json:"bad"`
}

type Node struct {
	ID    string `json:"id"`
	Elems []Elem `json:"elems"`
}

type Universe struct {
	Gammas  map[string]map[string]string `json:"gammas"`
	Entries map[string][]Elem            `json:"entries"`
	Leaves  []*Leaf                      `json:"leaves"`
	Nodes   []*Node                      `json:"nodes"`

	byID  map[string]*Leaf
	gamma map[string]string
	Gamma string
	// canonical structured path string -> leaf id, under the current gamma
	byCanon map[string]*Leaf
	// cache []string path (key values in key-NAME order, as utils.ToStrings) joined by \x00 -> leaf
	byCache map[string]*Leaf
}

func Load(file, gamma string) (*Universe, error) {
	b, err := os.ReadFile(file)
	if err != nil {
		return nil, err
	}
	u := &Universe{}
	if err := json.Unmarshal(b, u); err != nil {
		return nil, err
	}
	if err := u.SetGamma(gamma); err != nil {
		return nil, err
	}
	return u, nil
}

func (u *Universe) SetGamma(gamma string) error {
	g, ok := u.Gammas[gamma]
	if !ok {
		return fmt.Errorf("unknown gamma %q", gamma)
	}
	u.Gamma = gamma
	u.gamma = g
	u.byID = map[string]*Leaf{}
	u.byCanon = map[string]*Leaf{}
	u.byCache = map[string]*Leaf{}
	for _, l := range u.Leaves {
		u.byID[l.ID] = l
		c := CanonPath(u.Path(l))
		if o, dup := u.byCanon[c]; dup {
			return fmt.Errorf("gamma %s maps %s and %s to the same path %s", gamma, o.ID, l.ID, c)
		}
		u.byCanon[c] = l
		u.byCache[strings.Join(u.CachePath(l), "\x00")] = l
	}
	// self check: alpha(gamma(l)) == l
	for _, l := range u.Leaves {
		if id := u.AlphaPath(u.Path(l)); id != l.ID {
			return fmt.Errorf("alpha(gamma(%s)) = %s", l.ID, id)
		}
		if id := u.AlphaCachePath(u.CachePath(l)); id != l.ID {
			return fmt.Errorf("alphaCache(gammaCache(%s)) = %s", l.ID, id)
		}
	}
	return nil
}

func (u *Universe) Leaf(id string) *Leaf { return u.byID[id] }

// Node returns the request / delete node with the given id
func (u *Universe) Node(id string) *Node {
	for _, n := range u.Nodes {
		if n.ID == id {
			return n
		}
	}
	return nil
}

// NodePath is gamma for nodes
func (u *Universe) NodePath(n *Node) *sdcpb.Path { return u.ElemsPath(n.Elems) }

func (u *Universe) resolve(v string) string {
	if strings.HasPrefix(v, "$") {
		if r, ok := u.gamma[v[1:]]; ok {
			return r
		}
	}
	return v
}

// Path is gamma for paths: the concrete sdcpb.Path of an abstract leaf.
func (u *Universe) Path(l *Leaf) *sdcpb.Path { return u.ElemsPath(l.Elems) }

func (u *Universe) ElemsPath(elems []Elem) *sdcpb.Path {
	p := &sdcpb.Path{}
	for _, e := range elems {
		pe := &sdcpb.PathElem{Name: e.Name}
		if len(e.Keys) > 0 {
			pe.Key = map[string]string{}
			for _, kv := range e.Keys {
				pe.Key[kv.K] = u.resolve(kv.V)
			}
		}
		p.Elem = append(p.Elem, pe)
	}
	return p
}

// EntryPath is the concrete path of a list entry.
func (u *Universe) EntryPath(entry string) *sdcpb.Path { return u.ElemsPath(u.Entries[entry]) }

// CachePath is the []string form used by the cache: names and key values, keys ordered by key name.
func (u *Universe) CachePath(l *Leaf) []string {
	var out []string
	for _, e := range l.Elems {
		out = append(out, e.Name)
		kvs := append([]KV(nil), e.Keys...)
		sort.Slice(kvs, func(i, j int) bool { return kvs[i].K < kvs[j].K })
		for _, kv := range kvs {
			out = append(out, u.resolve(kv.V))
		}
	}
	return out
}

// KeyValue returns the concrete key value of a key leaf.
func (u *Universe) KeyValue(l *Leaf) string {
	if l.Key == nil {
		return ""
	}
	return u.gamma[*l.Key]
}

func esc(s string) string {
	s = strings.ReplaceAll(s, `\`, `\\`)
	s = strings.ReplaceAll(s, `]`, `\]`)
	s = strings.ReplaceAll(s, `/`, `\/`)
	return s
}

// CanonPath renders a structured path unambiguously (keys sorted by name, escaped). Harness internal only.
func CanonPath(p *sdcpb.Path) string {
	var sb strings.Builder
	for _, e := range p.GetElem() {
		sb.WriteString("/")
		sb.WriteString(esc(e.GetName()))
		ks := make([]string, 0, len(e.GetKey()))
		for k := range e.GetKey() {
			ks = append(ks, k)
		}
		sort.Strings(ks)
		for _, k := range ks {
			sb.WriteString("[" + esc(k) + "=" + esc(e.GetKey()[k]) + "]")
		}
	}
	if sb.Len() == 0 {
		return "/"
	}
	return sb.String()
}

// AlphaPath maps a structured path to its abstract leaf id, or "?<canon>" when it is not in the universe.
func (u *Universe) AlphaPath(p *sdcpb.Path) string {
	c := CanonPath(p)
	if l, ok := u.byCanon[c]; ok {
		return l.ID
	}
	return "?" + c
}

func (u *Universe) AlphaCachePath(p []string) string {
	if l, ok := u.byCache[strings.Join(p, "\x00")]; ok {
		return l.ID
	}
	return "?" + strings.Join(p, ",")
}

// AtOrBelow reports whether path p is at or below path anc by true path semantics.
// A key missing in anc's element is a wildcard (partial-key path).
func AtOrBelow(p, anc *sdcpb.Path) bool {
	if len(anc.GetElem()) > len(p.GetElem()) {
		return false
	}
	for i, ae := range anc.GetElem() {
		pe := p.GetElem()[i]
		if ae.GetName() != pe.GetName() {
			return false
		}
		for k, v := range ae.GetKey() {
			pv, ok := pe.GetKey()[k]
			if !ok || pv != v {
				return false
			}
		}
	}
	return true
}

// LeavesAtOrBelow: alpha for delete paths: the universe leaves at or below p.
func (u *Universe) LeavesAtOrBelow(p *sdcpb.Path) []string {
	var out []string
	for _, l := range u.Leaves {
		if AtOrBelow(u.Path(l), p) {
			out = append(out, l.ID)
		}
	}
	return out
}

// ---- values ----

func baseType(t string) string {
	if strings.HasPrefix(t, "leaf-list:") {
		return t[len("leaf-list:"):]
	}
	return t
}

// Datum is alpha for values: canonical datum of a typed value for the leaf's YANG type.
// The TypedValue variant is ignored here (a string "5" and a uint 5 denote the same
// datum for an integer leaf); the variant is reported separately by Variant.
func (u *Universe) Datum(l *Leaf, tv *sdcpb.TypedValue) string {
	if tv == nil || tv.Value == nil {
		return "nil"
	}
	if l != nil && l.Key != nil {
		if s, ok := scalarString(tv); ok && s == u.KeyValue(l) {
			return "key"
		}
	}
	t := ""
	if l != nil {
		t = baseType(l.Type)
	}
	if ll, ok := tv.Value.(*sdcpb.TypedValue_LeaflistVal); ok {
		parts := []string{}
		for _, e := range ll.LeaflistVal.GetElement() {
			parts = append(parts, scalarDatum(t, e))
		}
		return "ll:" + strings.Join(parts, "|")
	}
	d := scalarDatum(t, tv)
	if l != nil && l.Kind == "leaflist" {
		return "ll:" + d
	}
	if l != nil && l.Type == "leafref" {
		// render leafref values that equal a key value abstractly
		for k, v := range u.gamma {
			if d == "s:"+v && (k == "k1" || k == "k2") {
				return "s:$" + k
			}
		}
	}
	return d
}

func scalarString(tv *sdcpb.TypedValue) (string, bool) {
	switch v := tv.Value.(type) {
	case *sdcpb.TypedValue_StringVal:
		return v.StringVal, true
	case *sdcpb.TypedValue_AsciiVal:
		return v.AsciiVal, true
	case *sdcpb.TypedValue_UintVal:
		return strconv.FormatUint(v.UintVal, 10), true
	case *sdcpb.TypedValue_IntVal:
		return strconv.FormatInt(v.IntVal, 10), true
	case *sdcpb.TypedValue_BoolVal:
		return strconv.FormatBool(v.BoolVal), true
	case *sdcpb.TypedValue_IdentityrefVal:
		return v.IdentityrefVal.GetValue(), true
	}
	return "", false
}

func canonDecimal(s string) (string, bool) {
	s = strings.TrimSpace(s)
	neg := false
	if strings.HasPrefix(s, "-") {
		neg = true
		s = s[1:]
	} else if strings.HasPrefix(s, "+") {
		s = s[1:]
	}
	ip, fp := s, ""
	if i := strings.IndexByte(s, '.'); i >= 0 {
		ip, fp = s[:i], s[i+1:]
	}
	if ip == "" && fp == "" {
		return "", false
	}
	for _, c := range ip + fp {
		if c < '0' || c > '9' {
			return "", false
		}
	}
	ip = strings.TrimLeft(ip, "0")
	fp = strings.TrimRight(fp, "0")
	if ip == "" {
		ip = "0"
	}
	out := ip
	if fp != "" {
		out += "." + fp
	}
	if neg && out != "0" {
		out = "-" + out
	}
	return out, true
}

func decimalFromDigits(digits int64, precision uint32) string {
	if precision > 40 {
		return fmt.Sprintf("%de-%d", digits, precision)
	}
	neg := digits < 0
	var ds string
	if neg {
		ds = strconv.FormatUint(uint64(-digits), 10)
	} else {
		ds = strconv.FormatInt(digits, 10)
	}
	p := int(precision)
	for len(ds) <= p {
		ds = "0" + ds
	}
	s := ds[:len(ds)-p]
	if p > 0 {
		s += "." + ds[len(ds)-p:]
	}
	if neg {
		s = "-" + s
	}
	c, _ := canonDecimal(s)
	return c
}

func scalarDatum(t string, tv *sdcpb.TypedValue) string {
	if tv == nil || tv.Value == nil {
		return "nil"
	}
	switch v := tv.Value.(type) {
	case *sdcpb.TypedValue_EmptyVal:
		return "e:"
	case *sdcpb.TypedValue_DecimalVal:
		lex := decimalFromDigits(v.DecimalVal.GetDigits(), v.DecimalVal.GetPrecision())
		if t == "union" {
			return LexDatum(t, lex)
		}
		return "d:" + lex
	case *sdcpb.TypedValue_BytesVal:
		return "bin:" + base64.StdEncoding.EncodeToString(v.BytesVal)
	case *sdcpb.TypedValue_IdentityrefVal:
		return "id:" + v.IdentityrefVal.GetValue()
	case *sdcpb.TypedValue_DoubleVal:
		return "f:" + strconv.FormatFloat(v.DoubleVal, 'g', -1, 64)
	case *sdcpb.TypedValue_FloatVal:
		return "f:" + strconv.FormatFloat(float64(v.FloatVal), 'g', -1, 32)
	case *sdcpb.TypedValue_AnyVal, *sdcpb.TypedValue_JsonVal, *sdcpb.TypedValue_JsonIetfVal, *sdcpb.TypedValue_ProtoBytes:
		return "opaque:" + tv.String()
	}
	s, ok := scalarString(tv)
	if !ok {
		return "other:" + tv.String()
	}
	return LexDatum(t, s)
}

// LexDatum canonicalises the lexical form s of a value of YANG type t.
func LexDatum(t, s string) string {
	switch t {
	case "uint8", "uint16", "uint32", "uint64":
		if n, err := strconv.ParseUint(s, 10, 64); err == nil {
			return "u:" + strconv.FormatUint(n, 10)
		}
		return "bad-u:" + s
	case "int8", "int16", "int32", "int64":
		if n, err := strconv.ParseInt(s, 10, 64); err == nil {
			return "i:" + strconv.FormatInt(n, 10)
		}
		return "bad-i:" + s
	case "boolean":
		return "b:" + s
	case "enumeration":
		return "en:" + s
	case "identityref":
		if i := strings.LastIndexByte(s, ':'); i >= 0 {
			s = s[i+1:]
		}
		return "id:" + s
	case "decimal64":
		if c, ok := canonDecimal(s); ok {
			return "d:" + c
		}
		return "bad-d:" + s
	case "empty", "presence":
		return "e:"
	case "union":
		if n, err := strconv.ParseInt(s, 10, 64); err == nil {
			return "un:" + strconv.FormatInt(n, 10)
		}
		if c, ok := canonDecimal(s); ok && strings.Contains(s, ".") {
			return "un:" + c
		}
		return "un:" + EscDatum(s)
	case "binary":
		return "bin:" + s
	case "bits":
		f := strings.Fields(s)
		sort.Strings(f)
		return "bits:" + strings.Join(f, " ")
	}
	return "s:" + EscDatum(s)
}

// EscDatum keeps datums ASCII and free of the characters that structure them: every byte outside a safe set is %XX
func EscDatum(s string) string {
	var b strings.Builder
	for i := 0; i < len(s); i++ {
		c := s[i]
		if c >= 'a' && c <= 'z' || c >= 'A' && c <= 'Z' || c >= '0' && c <= '9' || strings.IndexByte(" ._:/=-+$[],@#", c) >= 0 {
			b.WriteByte(c)
		} else {
			fmt.Fprintf(&b, "%%%02X", c)
		}
	}
	return b.String()
}

func UnescDatum(s string) string {
	if !strings.Contains(s, "%") {
		return s
	}
	var b strings.Builder
	for i := 0; i < len(s); i++ {
		if s[i] == '%' && i+2 < len(s)+0 && i+2 <= len(s)-1+0 {
			if n, err := strconv.ParseUint(s[i+1:i+3], 16, 8); err == nil {
				b.WriteByte(byte(n))
				i += 2
				continue
			}
		}
		b.WriteByte(s[i])
	}
	return b.String()
}

// Variant names the TypedValue variant (used by the value engine).
func Variant(tv *sdcpb.TypedValue) string {
	if tv == nil || tv.Value == nil {
		return "nil"
	}
	return strings.TrimPrefix(fmt.Sprintf("%T", tv.Value), "*schema_server.TypedValue_")
}

// TypedValue is gamma for values: the typed value for an abstract datum of leaf l.
func (u *Universe) TypedValue(l *Leaf, datum string) (*sdcpb.TypedValue, error) {
	if datum == "key" {
		return &sdcpb.TypedValue{Value: &sdcpb.TypedValue_StringVal{StringVal: u.KeyValue(l)}}, nil
	}
	if strings.HasPrefix(datum, "ll:") {
		ll := &sdcpb.ScalarArray{}
		body := datum[3:]
		if body != "" {
			for _, part := range strings.Split(body, "|") {
				e, err := u.TypedValue(l, part)
				if err != nil {
					return nil, err
				}
				ll.Element = append(ll.Element, e)
			}
		}
		return &sdcpb.TypedValue{Value: &sdcpb.TypedValue_LeaflistVal{LeaflistVal: ll}}, nil
	}
	i := strings.IndexByte(datum, ':')
	if i < 0 {
		return nil, fmt.Errorf("bad datum %q", datum)
	}
	tag, lex := datum[:i], datum[i+1:]
	if strings.HasPrefix(lex, "$") {
		lex = u.resolve(lex)
	}
	switch tag {
	case "s", "un":
		return &sdcpb.TypedValue{Value: &sdcpb.TypedValue_StringVal{StringVal: UnescDatum(lex)}}, nil
	case "u":
		n, err := strconv.ParseUint(lex, 10, 64)
		if err != nil {
			return nil, err
		}
		return &sdcpb.TypedValue{Value: &sdcpb.TypedValue_UintVal{UintVal: n}}, nil
	case "i":
		n, err := strconv.ParseInt(lex, 10, 64)
		if err != nil {
			return nil, err
		}
		return &sdcpb.TypedValue{Value: &sdcpb.TypedValue_IntVal{IntVal: n}}, nil
	case "b":
		return &sdcpb.TypedValue{Value: &sdcpb.TypedValue_BoolVal{BoolVal: lex == "true"}}, nil
	case "e":
		return &sdcpb.TypedValue{Value: &sdcpb.TypedValue_EmptyVal{}}, nil
	case "en", "id", "d", "bin", "bits":
		// given in string form; the server converts to the YANG type
		return &sdcpb.TypedValue{Value: &sdcpb.TypedValue_StringVal{StringVal: lex}}, nil
	}
	return nil, fmt.Errorf("bad datum tag %q", datum)
}
