package uni

import (
	"encoding/json"
	"fmt"
	"sort"
	"strings"

	sdcpb "github.com/sdcio/sdc-protos/sdcpb"
)

// DecodeJSON is alpha for JSON / JSON_IETF documents: the set of (leaf id, datum) a document denotes.
// Names may carry a module prefix ("vf:sys"), list entries are arrays of objects whose key members
// identify the entry, leaf-lists are arrays of scalars, `[null]` is an empty-typed leaf, `{}` a presence container.
func (u *Universe) DecodeJSON(doc []byte) ([][2]string, error) {
	dec := json.NewDecoder(strings.NewReader(string(doc)))
	dec.UseNumber()
	var v any
	if err := dec.Decode(&v); err != nil {
		return nil, err
	}
	var out [][2]string
	if v == nil {
		return out, nil
	}
	m, ok := v.(map[string]any)
	if !ok {
		return nil, fmt.Errorf("json document is not an object: %T", v)
	}
	if err := u.walkJSON(&sdcpb.Path{}, m, &out); err != nil {
		return nil, err
	}
	sort.Slice(out, func(i, j int) bool { return out[i][0] < out[j][0] || (out[i][0] == out[j][0] && out[i][1] < out[j][1]) })
	return out, nil
}

func stripPrefix(name string) string {
	if i := strings.IndexByte(name, ':'); i >= 0 {
		return name[i+1:]
	}
	return name
}

func clonePath(p *sdcpb.Path) *sdcpb.Path {
	q := &sdcpb.Path{}
	for _, e := range p.GetElem() {
		ne := &sdcpb.PathElem{Name: e.GetName()}
		if len(e.GetKey()) > 0 {
			ne.Key = map[string]string{}
			for k, v := range e.GetKey() {
				ne.Key[k] = v
			}
		}
		q.Elem = append(q.Elem, ne)
	}
	return q
}

// listKeyNames: key names of the list at the given element names (nil if it is not a list of the universe)
func (u *Universe) listKeyNames(names []string) []string {
	for _, l := range u.Leaves {
		if len(l.Elems) < len(names) {
			continue
		}
		ok := true
		for i, n := range names {
			if l.Elems[i].Name != n {
				ok = false
				break
			}
		}
		if ok && len(l.Elems[len(names)-1].Keys) > 0 {
			var ks []string
			for _, kv := range l.Elems[len(names)-1].Keys {
				ks = append(ks, kv.K)
			}
			return ks
		}
	}
	return nil
}

func scalarLex(v any) (string, bool) {
	switch x := v.(type) {
	case string:
		return x, true
	case json.Number:
		return x.String(), true
	case bool:
		if x {
			return "true", true
		}
		return "false", true
	}
	return "", false
}

func (u *Universe) emitLeaf(p *sdcpb.Path, lex string, out *[][2]string) {
	id := u.AlphaPath(p)
	l := u.Leaf(id)
	if l != nil && l.Key != nil && lex == u.KeyValue(l) {
		*out = append(*out, [2]string{id, "key"})
		return
	}
	t := ""
	if l != nil {
		t = baseType(l.Type)
	}
	d := LexDatum(t, lex)
	if l != nil && l.Type == "leafref" {
		for k, v := range u.gamma {
			if d == "s:"+v && (k == "k1" || k == "k2") {
				d = "s:$" + k
			}
		}
	}
	*out = append(*out, [2]string{id, d})
}

func (u *Universe) walkJSON(p *sdcpb.Path, m map[string]any, out *[][2]string) error {
	for rawName, val := range m {
		name := stripPrefix(rawName)
		cp := clonePath(p)
		cp.Elem = append(cp.Elem, &sdcpb.PathElem{Name: name})
		names := make([]string, 0, len(cp.Elem))
		for _, e := range cp.Elem {
			names = append(names, e.GetName())
		}
		switch x := val.(type) {
		case map[string]any:
			if len(x) == 0 {
				// presence container
				*out = append(*out, [2]string{u.AlphaPath(cp), "e:"})
				continue
			}
			if err := u.walkJSON(cp, x, out); err != nil {
				return err
			}
		case []any:
			if len(x) == 1 && x[0] == nil {
				*out = append(*out, [2]string{u.AlphaPath(cp), "e:"})
				continue
			}
			isList := len(x) > 0
			for _, e := range x {
				if _, ok := e.(map[string]any); !ok {
					isList = false
				}
			}
			if isList {
				keys := u.listKeyNames(names)
				for _, e := range x {
					em := e.(map[string]any)
					ep := clonePath(cp)
					pe := ep.Elem[len(ep.Elem)-1]
					pe.Key = map[string]string{}
					for _, k := range keys {
						for rn, kv := range em {
							if stripPrefix(rn) == k {
								if lex, ok := scalarLex(kv); ok {
									pe.Key[k] = lex
								}
							}
						}
					}
					if keys == nil {
						pe.Key["?"] = "unknown-list"
					}
					if err := u.walkJSON(ep, em, out); err != nil {
						return err
					}
				}
				continue
			}
			// leaf-list
			id := u.AlphaPath(cp)
			l := u.Leaf(id)
			t := ""
			if l != nil {
				t = baseType(l.Type)
			}
			parts := []string{}
			for _, e := range x {
				lex, _ := scalarLex(e)
				parts = append(parts, LexDatum(t, lex))
			}
			*out = append(*out, [2]string{id, "ll:" + strings.Join(parts, "|")})
		default:
			lex, ok := scalarLex(val)
			if !ok {
				*out = append(*out, [2]string{u.AlphaPath(cp), fmt.Sprintf("other:%v", val)})
				continue
			}
			u.emitLeaf(cp, lex, out)
		}
	}
	return nil
}
