// Package dev is the harness side southbound device: a dumb, atomic, structured-path
// store that applies deletes then updates, records what it was sent and enforces no
// YANG semantics (no choice exclusivity, no defaults): those obligations stay with data-server.
package dev

import (
	"context"
	"fmt"
	"sort"
	"sync"

	"github.com/sdcio/data-server/pkg/config"
	"github.com/sdcio/data-server/pkg/datastore/target"
	sdcpb "github.com/sdcio/sdc-protos/sdcpb"
	"google.golang.org/protobuf/proto"

	"verifharness/uni"
)

type Entry struct {
	Path *sdcpb.Path
	Val  *sdcpb.TypedValue
}

type SetCall struct {
	Upd []*sdcpb.Update
	Del []*sdcpb.Path
	Err error
	// Extra is filled by OnSet (other renderings of the same TargetSource)
	Extra any
}

type Device struct {
	mu    sync.Mutex
	store map[string]Entry
	Calls []*SetCall
	// FailNext, when set, makes the next Set fail with this error (consumed)
	FailNext error
	// OnSet is called inside Set with the source, before the change is applied
	OnSet func(ctx context.Context, src target.TargetSource, call *SetCall)
	// SyncFn, when set, is run by Sync (scripted notification stream)
	SyncFn func(ctx context.Context, cfg *config.Sync, ch chan *target.SyncUpdate)
}

func New() *Device { return &Device{store: map[string]Entry{}} }

func (d *Device) Get(_ context.Context, req *sdcpb.GetDataRequest) (*sdcpb.GetDataResponse, error) {
	d.mu.Lock()
	defer d.mu.Unlock()
	n := &sdcpb.Notification{}
	for _, e := range d.sorted() {
		for _, p := range req.GetPath() {
			if uni.AtOrBelow(e.Path, p) {
				n.Update = append(n.Update, &sdcpb.Update{Path: e.Path, Value: e.Val})
				break
			}
		}
	}
	return &sdcpb.GetDataResponse{Notification: []*sdcpb.Notification{n}}, nil
}

func (d *Device) Set(ctx context.Context, src target.TargetSource) (*sdcpb.SetDataResponse, error) {
	call := &SetCall{}
	upds, err := src.ToProtoUpdates(ctx, true)
	if err != nil {
		return nil, fmt.Errorf("device: ToProtoUpdates: %w", err)
	}
	dels, err := src.ToProtoDeletes(ctx)
	if err != nil {
		return nil, fmt.Errorf("device: ToProtoDeletes: %w", err)
	}
	for _, u := range upds {
		call.Upd = append(call.Upd, proto.Clone(u).(*sdcpb.Update))
	}
	for _, p := range dels {
		call.Del = append(call.Del, proto.Clone(p).(*sdcpb.Path))
	}
	if d.OnSet != nil {
		d.OnSet(ctx, src, call)
	}
	d.mu.Lock()
	defer d.mu.Unlock()
	d.Calls = append(d.Calls, call)
	if d.FailNext != nil {
		call.Err = d.FailNext
		d.FailNext = nil
		return nil, call.Err
	}
	d.apply(call.Upd, call.Del)
	return &sdcpb.SetDataResponse{}, nil
}

func (d *Device) apply(upds []*sdcpb.Update, dels []*sdcpb.Path) {
	for _, p := range dels {
		for k, e := range d.store {
			if uni.AtOrBelow(e.Path, p) {
				delete(d.store, k)
			}
		}
	}
	for _, u := range upds {
		d.store[uni.CanonPath(u.GetPath())] = Entry{Path: u.GetPath(), Val: u.GetValue()}
	}
}

// Put writes an initial value directly (out of band, before the history starts).
func (d *Device) Put(p *sdcpb.Path, v *sdcpb.TypedValue) {
	d.mu.Lock()
	defer d.mu.Unlock()
	d.store[uni.CanonPath(p)] = Entry{Path: p, Val: v}
}

func (d *Device) sorted() []Entry {
	ks := make([]string, 0, len(d.store))
	for k := range d.store {
		ks = append(ks, k)
	}
	sort.Strings(ks)
	out := make([]Entry, 0, len(ks))
	for _, k := range ks {
		out = append(out, d.store[k])
	}
	return out
}

func (d *Device) Content() []Entry {
	d.mu.Lock()
	defer d.mu.Unlock()
	return d.sorted()
}

func (d *Device) NumCalls() int {
	d.mu.Lock()
	defer d.mu.Unlock()
	return len(d.Calls)
}

func (d *Device) CallsFrom(i int) []*SetCall {
	d.mu.Lock()
	defer d.mu.Unlock()
	return append([]*SetCall(nil), d.Calls[i:]...)
}

func (d *Device) Sync(ctx context.Context, cfg *config.Sync, ch chan *target.SyncUpdate) {
	if d.SyncFn != nil {
		d.SyncFn(ctx, cfg, ch)
	}
}

func (d *Device) Status() *target.TargetStatus {
	return target.NewTargetStatus(target.TargetStatusConnected)
}

func (d *Device) Close() error { return nil }
